#!/usr/bin/env python3
"""Generates selftest/mutations.json (the acceptance test of the checker: Appendix A of DESIGN.md, adapted to the repaired tree).
`expect` is a substring of the obligation key that must be reported; None = negative control (must stay silent)."""
import json
M = []
def mut(name, prop, expect, *edits):
    M.append({"name": name, "property": prop, "expect": expect,
              "edits": [{"file": f, "old": o, "new": n} for (f, o, n) in edits]})
H = "handshake.go"
# --- C07 -----------------------------------------------------------------------------------------------
mut("07-delete-dhi-server-nonce-check", "C07", "guard:server_DH_inner_data.server_nonce", (H,
 '''	if nonceServer.Cmp(dhi.ServerNonce.Int) != 0 {
		return errors.New("handshake: Wrong server_nonce")
	}
''', ""))
mut("07-invert-dhg-nonce-check", "C07", "guard:dh_gen_ok.nonce", (H, "if nonceFirst.Cmp(dhg.Nonce.Int) != 0 {", "if nonceFirst.Cmp(dhg.Nonce.Int) == 0 {"))
mut("07-compare-nonce-with-itself", "C07", "guard:resPQ.nonce", (H, "if nonceFirst.Cmp(res.Nonce.Int) != 0 {", "if nonceFirst.Cmp(nonceFirst.Int) != 0 {"))
mut("07-drop-fingerprint-found-check", "C07", "guard:resPQ.fingerprint", (H,
 '''	if !found {
		return errors.New("handshake: Can't find fingerprint")
	}
''', "	_ = found\n"))
mut("07-unchecked-type-assertion", "C07", "guard:server_DH_params_ok.kind", (H,
 '''	dhParams, ok := dhResponse.(*objects.ServerDHParamsOk)
	if !ok {
		return errors.New("handshake: Need ServerDHParamsOk")
	}
''', '''	dhParams, _ := dhResponse.(*objects.ServerDHParamsOk)
	if dhParams == nil {
		dhParams = &objects.ServerDHParamsOk{Nonce: nonceFirst, ServerNonce: nonceServer}
	}
'''))
mut("07-encrypted-before-dhgen-checks", "C07", "guard:dh_gen_ok", (H,
 '''	dhg, ok := dhGenStatus.(*objects.DHGenOk)
''', '''	m.encrypted = true
	dhg, ok := dhGenStatus.(*objects.DHGenOk)
'''))
mut("07-weaken-cmp-to-greater", "C07", "guard:server_DH_params_ok.nonce", (H, "if nonceFirst.Cmp(dhParams.Nonce.Int) != 0 {", "if nonceFirst.Cmp(dhParams.Nonce.Int) > 0 {"))
mut("07-other-nonce", "C07", "guard:dh_gen_ok.server_nonce", (H, "if nonceServer.Cmp(dhg.ServerNonce.Int) != 0 {", "if nonceFirst.Cmp(dhg.ServerNonce.Int) != 0 {"))
mut("07-hash-check-logs-only", "C07", "guard:dh_gen_ok.new_nonce_hash1", (H,
 '''		return fmt.Errorf(
			"handshake: Wrong new_nonce_hash1: %v, %v",
			hex.EncodeToString(nonceHash1),
			hex.EncodeToString(dhg.NewNonceHash1.Bytes()),
		)''', '''		fmt.Printf(
			"handshake: Wrong new_nonce_hash1: %v, %v",
			hex.EncodeToString(nonceHash1),
			hex.EncodeToString(dhg.NewNonceHash1.Bytes()),
		)'''))
mut("07-decrypt-skips-hash", "C07", "sha1_prefix", ("internal/aes_ige/aes.go",
 "			if bytes.Equal(decodedHash, dry.Sha1Byte(decodedMessage[:i])) {", "			if len(decodedHash) == 20 || bytes.Equal(decodedHash, dry.Sha1Byte(decodedMessage[:i])) {"))
mut("07-reqpq-unchecked-kind", "C07", "reply-kind:ReqPQ", ("internal/mtproto/objects/methods.go",
 '''	resp, ok := data.(*ResPQ)
	if !ok {
		return nil, errors.Errorf("got invalid response type: %T", data)
	}

	return resp, nil
}

type ReqDHParamsParams''', '''	resp, _ := data.(*ResPQ)
	if resp == nil {
		resp = &ResPQ{Nonce: nonce}
	}

	return resp, nil
}

type ReqDHParamsParams'''))
mut("07-savesession-elsewhere", "C07", "caller:SaveSession", ("mtproto.go",
 '''	// start keepalive pinging
	m.startPinging(ctx)
''', '''	// start keepalive pinging
	m.startPinging(ctx)
	_ = m.SaveSession()
'''))
# negative controls for C07
mut("07N-reorder-two-guards", "C07", None, (H,
 '''	if nonceFirst.Cmp(dhi.Nonce.Int) != 0 {
		return errors.New("handshake: Wrong nonce")
	}
	if nonceServer.Cmp(dhi.ServerNonce.Int) != 0 {
		return errors.New("handshake: Wrong server_nonce")
	}
''', '''	if nonceServer.Cmp(dhi.ServerNonce.Int) != 0 {
		return errors.New("handshake: Wrong server_nonce")
	}
	if nonceFirst.Cmp(dhi.Nonce.Int) != 0 {
		return errors.New("handshake: Wrong nonce")
	}
'''))
mut("07N-equivalent-comparison-spelling", "C07", None, (H, "if nonceFirst.Cmp(dhg.Nonce.Int) != 0 {", "if !(dhg.Nonce.Int.Cmp(nonceFirst.Int) == 0) {"))
mut("07N-rename-local-and-log", "C07", None, (H, "	found := false\n", "	found := false\n	fmt.Println(\"checking fingerprints\")\n"))
# --- C19 -----------------------------------------------------------------------------------------------
mut("19-nonce-from-math-rand", "C19", "source:nonce:tl.RandomInt128", ("internal/encoding/tl/common_types.go", "i.SetBytes(cryptoRandomBytes(Int128Len))", "i.SetBytes(dry.RandomBytes(Int128Len))"))
mut("19-constant-new-nonce", "C19", "new_nonce:tl.RandomInt256", ("internal/encoding/tl/common_types.go", "i.SetBytes(cryptoRandomBytes(Int256Len))", "i.SetBytes(make([]byte, Int256Len))"))
mut("19-dh-exponent-seeded", "C19", "dh_exponent", ("internal/math/math.go",
 '''	b, err := crand.Int(crand.Reader, rndmax)
	if err != nil {
		panic("reading crypto/rand: " + err.Error())
	}
''', '''	b = big.NewInt(0).Rand(rand.New(rand.NewSource(1)), rndmax)
	_ = crand.Reader
'''))
# --- C06 / C05 / C18 width ----------------------------------------------------------------------------------
mut("06-bare-bytes-new-nonce", "C06", "width:", (H, "newNonceBytes := math.BigIntFixedBytes(nonceSecond.Int, tl.Int256Len)", "newNonceBytes := nonceSecond.Bytes()"))
mut("06-wrong-width-server-nonce", "C06", "fixed-width:", (H, "serverNonceBytes := math.BigIntFixedBytes(nonceServer.Int, tl.Int128Len)", "serverNonceBytes := math.BigIntFixedBytes(nonceServer.Int, tl.Int256Len)"))
mut("06-padding-helper-left-aligned", "C06", "sanitiser:", ("internal/math/math.go", "	copy(res[size-len(b):], b)", "	copy(res, b)"))
mut("06-rsa-left-aligned", "C06", "width:", ("internal/math/math.go", "	return BigIntFixedBytes(c, 256)", "	res := make([]byte, 256)\n	copy(res, c.Bytes())\n	return res"))
mut("05-tempkeys-bare-bytes", "C05", "R05.W", ("internal/aes_ige/aes.go", "	nonceServerBytes := math.BigIntFixedBytes(nonceServer, 16)", "	nonceServerBytes := nonceServer.Bytes()"))
mut("01-int128-bare-bytes", "C01", "fixed-width:Int128", ("internal/encoding/tl/common_types.go", "	e.PutRawBytes(dry.BigIntBytes(i.Int, Int128Len*bitsInByte))", "	e.PutRawBytes(i.Int.Bytes())"))
mut("18-srp-s-unpadded", "C18", "R18.W", ("telegram/internal/srp/2fa.go", "	sa := pad256(bigExp(t, u.Mul(u, x).Add(u, a), p).Bytes())", "	sa := bigExp(t, u.Mul(u, x).Add(u, a), p).Bytes()"))
mut("18-validate-after-use", "C18", "validate-first", ("telegram/internal/srp/2fa.go",
 '''	err := validateCurrentAlgo(srpB, mp)
	if err != nil {
		return nil, errors.Wrap(err, "validating CurrentAlgo")
	}

	p := bytesToBig(mp.P)
''', '''	p := bytesToBig(mp.P)
	err := validateCurrentAlgo(srpB, mp)
	if err != nil {
		return nil, errors.Wrap(err, "validating CurrentAlgo")
	}

'''))
mut("18-B-upper-bound-inclusive", "C18", "range:B<p", ("telegram/internal/srp/2fa.go", "gb.Cmp(p) != -1 ||", "gb.Cmp(p) == 1 ||"))
mut("18-t-normalisation-inverted", "C18", "normalise-negative-t", ("telegram/internal/srp/2fa.go", "if t.Sub(t, kv).Cmp(big.NewInt(0)) == -1 {", "if t.Sub(t, kv).Cmp(big.NewInt(0)) == 1 {"))
# --- C04 / C03 -------------------------------------------------------------------------------------------
MS = "internal/mtproto/messages/messages.go"
mut("04-delete-msgkey-check", "C04", "enc:msg-key", (MS,
 '''	if !bytes.Equal(dry.Sha1Byte(trimed)[4:20], msg.MsgKey) {
		return nil, errors.New("wrong message key, can't trust to sender")
	}
''', "	_ = dry.Sha1Byte(trimed)\n"))
mut("04-msgkey-over-whole-buffer", "C04", "enc:msg-key", (MS, "	trimed := decrypted[0 : 32+messageLen] // суммарное сообщение, после расшифровки", "	trimed := decrypted // суммарное сообщение, после расшифровки"))
mut("04-accept-even-msgids", "C04", "enc:msg-id-parity", (MS,
 '''	mod := msg.MsgID & 3
	if mod != 1 && mod != 3 {
		return nil, fmt.Errorf("wrong bits of message_id: %d", mod)
	}

	// этот кусок''', '''	mod := msg.MsgID & 3
	if mod != 1 && mod != 3 && mod != 0 {
		return nil, fmt.Errorf("wrong bits of message_id: %d", mod)
	}

	// этот кусок'''))
mut("04-drop-lower-bound", "C04", "R04.B", (MS, "	if messageLen < 0 || len(decrypted)-", "	if len(decrypted)-"))
mut("04-drop-header-length-check", "C04", "alloc:PopRawBytes", (MS,
 '''	if len(data) < tl.LongLen+tl.Int128Len {
		return nil, fmt.Errorf("packet is smaller than its header: have %v bytes", len(data))
	}

''', ""))
mut("04-off-by-one-upper-bound", "C04", "R04.B", (MS, "+tl.WordLen+tl.WordLen) < int(messageLen) {", "+tl.WordLen) < int(messageLen) {"))
mut("03-reader-swaps-session-and-msgid", "C03", "reader:DeserializeEncrypted/inner", (MS, "	msg.SessionID = d.PopLong()\n	msg.MsgID = d.PopLong()", "	msg.MsgID = d.PopLong()\n	msg.SessionID = d.PopLong()"))
mut("03-writer-ack-bit-always", "C03", "ack-bit", (MS, "		d.PutInt(client.GetSeqNo())\n", "		d.PutInt(client.GetSeqNo() | 1)\n"))
mut("03-decrypt-uses-encode-direction", "C03", "direction:Decrypt", ("internal/aes_ige/aes.go", "aesKey, aesIV := generateAESIGE(checkData, key, true)", "aesKey, aesIV := generateAESIGE(checkData, key, false)"))
mut("03-msgkey-window", "C03", "window:MessageKey", ("internal/aes_ige/aes.go", "	return dry.Sha1(string(msg))[4:20]", "	return dry.Sha1(string(msg))[0:16]"))
mut("03-pad-16-on-aligned", "C03", "pad:ige.Encrypt", ("internal/aes_ige/aes.go", "data := make([]byte, len(msg)+((16-(len(msg)%16))&15))", "data := make([]byte, len(msg)+(16-(len(msg)%16)))"))
# --- C05 -----------------------------------------------------------------------------------------------
mut("05-decrypt-drops-validation", "C05", "validate:doAES256IGEdecrypt", ("internal/aes_ige/ige_cipher.go",
 '''func (c *Cipher) doAES256IGEdecrypt(in, out []byte) error { //nolint:dupl потому что алгоритм на тоненького
	if err := isCorrectData(in); err != nil {
		return err
	}
''', '''func (c *Cipher) doAES256IGEdecrypt(in, out []byte) error { //nolint:dupl потому что алгоритм на тоненького
	if len(in) == 0 {
		return ErrDataTooSmall
	}
'''))
mut("05-strip-loop-skips-zero", "C05", "strip:cut-points", ("internal/aes_ige/aes.go", "for i := len(decodedMessage); i >= 0 && i > len(decodedMessage)-16; i-- {", "for i := len(decodedMessage) - 1; i >= 0 && i > len(decodedMessage)-16; i-- {"))
mut("05-pad-1-to-16", "C05", "pad:ige.EncryptMessageWithTempKeys", ("internal/aes_ige/aes.go", "needToAdd := (16 - overflowedLen) % 16", "needToAdd := 16 - overflowedLen"))
# --- C08 -----------------------------------------------------------------------------------------------
mut("08-raw-read", "C08", "R08.F", ("internal/transport/conn_tcp.go", "	n, err := t.cancelReader.Read(b)", "	n, err := t.conn.Read(b)"))
mut("08-wrap-eof", "C08", "unwrapped:", ("internal/transport/transport.go",
 '''		switch err {
		case io.EOF, context.Canceled:
			return nil, err
		default:
			return nil, errors.Wrap(err, "reading message")
		}
	}

	// checking that response''', '''		switch err {
		case context.Canceled:
			return nil, err
		default:
			return nil, errors.Wrap(err, "reading message")
		}
	}

	_ = io.EOF
	// checking that response'''))
mut("08-unsigned-error-code", "C08", "error-code:signed", ("internal/transport/transport.go", "code := int(int32(binary.LittleEndian.Uint32(data)))", "code := int(binary.LittleEndian.Uint32(data))"))
mut("08-abridged-threshold-off-by-one", "C08", "abridged:writer-header", ("internal/mode/arbiged.go", "if msgLength < int(magicValueSizeMoreThanSingleByte) {", "if msgLength <= int(magicValueSizeMoreThanSingleByte) {"))
mut("08-abridged-length-byte-order", "C08", "abridged:writer-header", ("internal/mode/arbiged.go", "size = []byte{magicValueSizeMoreThanSingleByte, b1, b2, b3}", "size = []byte{magicValueSizeMoreThanSingleByte, b3, b2, b1}"))
# --- C10 / C09 / C11 / C12 ------------------------------------------------------------------------------
mut("10-id-before-lock", "C10", "msg-id-generated-in-section", ("network.go",
 '''	m.seqNoMutex.Lock()
	defer m.seqNoMutex.Unlock()

	var (
		data  messages.Common
		msgID = utils.GenerateMessageId()
	)
''', '''	var (
		data  messages.Common
		msgID = utils.GenerateMessageId()
	)
	m.seqNoMutex.Lock()
	defer m.seqNoMutex.Unlock()
'''))
mut("10-ping-not-content-related", "C10", "require-ack", ("utils.go", "	case /**objects.Ping,*/ *objects.MsgsAck:\n		return false", "	case *objects.PingParams, *objects.MsgsAck:\n		return false"))
mut("10-pong-arm-returns-early", "C10", "ack:every-success-exit", ("mtproto.go", "		// игнорим, пришло и пришло, че бубнить то\n", "		// игнорим, пришло и пришло, че бубнить то\n		return nil\n"))
mut("10-seqno-odd-increment", "C10", "seqno:even-increment", ("network.go", "		m.seqNo += 2", "		m.seqNo += 1"))
mut("09-drop-delete", "C09", "forget:SyncIntObjectChan", ("network.go", "	m.responseChannels.Delete(msgID)\n	m.expectedTypes.Delete(msgID)\n	return nil", "	m.expectedTypes.Delete(msgID)\n	return nil"))
mut("09-deliver-by-server-id", "C09", "R09.K", ("mtproto.go", "err := m.writeRPCResponse(int(message.ReqMsgID), obj)", "err := m.writeRPCResponse(msg.GetMsgID(), obj)"))
mut("11-new-session-drops-save", "C11", "adopt-and-save:new_session_created", ("mtproto.go",
 '''		m.serverSalt = message.ServerSalt
		err := m.SaveSession()
		if err != nil {
			m.warnError(errors.Wrap(err, "saving session"))
		}
''', "		m.serverSalt = message.ServerSalt\n"))
mut("11-notify-all-again", "C11", "retry-marker", ("mtproto.go",
 '''		badMsgID := int(message.BadMsgID)
		if v, ok := m.responseChannels.Get(badMsgID); ok {
			m.responseChannels.Delete(badMsgID)
			m.expectedTypes.Delete(badMsgID)
			v <- &errorSessionConfigsChanged{}
		}
''', '''		for _, k := range m.responseChannels.Keys() {
			v, _ := m.responseChannels.Get(k)
			v <- &errorSessionConfigsChanged{}
		}
'''))
mut("12-writesession-drops-hostname", "C12", "writeSession:Hostname", ("internal/session/file.go", "	t.Hostname = s.Hostname\n", ""))
mut("12-unmarshal-error-dropped", "C12", "error:Load", ("internal/session/file.go",
 '''	err = json.Unmarshal(data, file)
	if err != nil {
		return nil, errors.Wrap(err, "parsing file")
	}
''', "	_ = json.Unmarshal(data, file)\n"))
mut("12-cache-hit-on-nonnil-only", "C12", "cache-hit:guarded", ("internal/session/file.go", "if info.ModTime().Equal(l.lastEdited) && l.cached != nil {", "if l.cached != nil {"))
mut("12-makeauthkey-unconditional", "C12", "resume:", ("mtproto.go",
 '''	if !m.encrypted {
		err = m.makeAuthKey()
		if err != nil {
			return errors.Wrap(err, "making auth key")
		}
	}
''', '''	err = m.makeAuthKey()
	if err != nil {
		return errors.Wrap(err, "making auth key")
	}
'''))
mut("12-split-again", "C12", "dir-arg", ("internal/session/file.go", '	dir := filepath.Dir(l.path) // "." for a bare file name, where Split would give ""', "	dir, _ := filepath.Split(l.path)"))
# --- C13 / C02 / C01 ------------------------------------------------------------------------------------
mut("13-swap-two-fields", "C13", "fields:", ("telegram/types_gen.go", "	TmpPassword []byte\n	ValidUntil  int32\n", "	ValidUntil  int32\n	TmpPassword []byte\n"))
mut("13-flag-bit-shifted", "C13", "fields:", ("telegram/types_gen.go", '	PrivacyPolicyURL string `tl:"flag:0"`', '	PrivacyPolicyURL string `tl:"flag:1"`'))
mut("13-crc-constant", "C13", "registered:", ("telegram/types_gen.go", "	return 0xad2e1cd8", "	return 0xad2e1cd9"))
mut("13-method-args-swapped", "C13", "method:account.changePhone", ("telegram/methods_gen.go", "		PhoneCode:     phoneCode,\n		PhoneCodeHash: phoneCodeHash,", "		PhoneCode:     phoneCodeHash,\n		PhoneCodeHash: phoneCode,"))
mut("13-registration-dropped", "C13", "registered:", ("telegram/init_gen.go", "		&AccountAuthorizations{},\n", ""))
mut("13-takeout-id-again", "C13", "wrapper-id:InvokeWithTakeoutParams", ("telegram/methods_special.go", "	return 0xaca9fd2e", "	return 0xda9b0d0d"))
mut("02-layout-same-as-13", "C02", "layout:", ("telegram/types_gen.go", '	PrivacyPolicyURL string `tl:"flag:0"`', '	PrivacyPolicyURL string `tl:"flag:1"`'))
mut("02-maxlen-off-by-one", "C02", "refuse-at-2^24", ("internal/encoding/tl/cursor_w.go", "	if len(msg) >= maxLen {", "	if len(msg) > maxLen {"))
mut("02-threshold-255-in-PutMessage-only", "C02", "switch:PutMessage", ("internal/encoding/tl/cursor_w.go", "	if len(msg) < FuckingMagicNumber {\n		e.putTinyBytes(msg)", "	if len(msg) < FuckingMagicNumber+1 {\n		e.putTinyBytes(msg)"))
mut("01-float-arm-removed", "C01", "R01.K", ("internal/encoding/tl/decoder.go", "	case reflect.Float64:\n		val = d.PopDouble()\n\n", ""))
mut("01-double-written-as-long", "C01", "pair:Float64", ("internal/encoding/tl/encoder.go", "		c.PutDouble(value.Float())", "		c.PutLong(int64(value.Float()))"))
mut("01-decoder-mask-shifted", "C01", "decoder:bit-test", ("internal/encoding/tl/decoder.go", "if optionalBitSet&(1<<info.index) == 0 {", "if optionalBitSet&(1<<(info.index+1)) == 0 {"))
mut("01-per-field-presence-again", "C01", "shared-bit:", ("internal/encoding/tl/encoder.go", "		if flag&(1<<info.index) == 0 || info.encodedInBitflag {", "		if v.Field(i).IsZero() || info.encodedInBitflag {"))
mut("01-bool-ids-swapped", "C01", "bool:writer-ids", ("internal/encoding/tl/cursor_w.go", "	crc := CrcFalse\n	if v {\n		crc = CrcTrue\n	}", "	crc := CrcTrue\n	if v {\n		crc = CrcFalse\n	}"))
mut("01-container-bytes-again", "C01", "MessageContainer/layout", ("internal/mtproto/objects/types.go", "		e.PutInt(int32(len(msg.Msg))) // bytes:int is the length of the body that follows", "		e.PutInt(tl.LongLen + tl.WordLen + tl.WordLen + int32(len(msg.Msg)))"))
# --- C15 / C16 / C17 / C20 ------------------------------------------------------------------------------
mut("15-popvector-bound-removed", "C15", "popVector/reflect:reflect.MakeSlice", ("internal/encoding/tl/cursor_r.go",
 '''	if int64(size) > int64(d.buf.Len()/WordLen) {
		d.err = fmt.Errorf("vector of %v elements can't fit in %v bytes left", size, d.buf.Len())
		return nil
	}
''', ""))
mut("15-new-panic-in-decodeObject", "C15", "decodeObject/panic", ("internal/encoding/tl/decoder.go",
 '''			if err != nil {
				d.err = errors.Wrap(err, "parse tag")
				return
			}
''', '''			if err != nil {
				panic(err)
			}
'''))
mut("15-enum-elem-again", "C15", "decodeRegisteredObject/reflect", ("internal/encoding/tl/decoder.go", "	if _typ.Kind() == reflect.Ptr {\n		o = reflect.New(_typ.Elem()).Interface().(Object)\n	} else {", "	if crc != 0 {\n		o = reflect.New(_typ.Elem()).Interface().(Object)\n	} else {"))
mut("15-container-loop-ignores-error", "C15", "loop:", ("internal/mtproto/objects/types.go",
 '''		if err := d.CheckErr(); err != nil {
			return errors.Wrapf(err, "reading message %v of container", i)
		}
''', ""))
mut("15-poprawbytes-unbounded", "C15", "PopRawBytes", ("internal/encoding/tl/cursor_r.go", "	if size < 0 || size > d.buf.Len() {", "	if size > d.buf.Len() && size < 0 {"))
mut("16-default-arm-returns-error", "C16", "default-arm:non-fatal", ("mtproto.go",
 '''		if !processed {
			m.warnError(errors.New("got nonsystem message from server: " + reflect.TypeOf(message).String()))
		}
''', '''		if !processed {
			return errors.New("got nonsystem message from server: " + reflect.TypeOf(message).String())
		}
'''))
mut("16-new-check-in-newsession-arm", "C16", "processResponse/helper:mtproto.check", ("mtproto.go",
 '''		if err != nil {
			m.warnError(errors.Wrap(err, "saving session"))
		}
''', "		check(err)\n"))
mut("16-reconnect-resets-key", "C16", "reconnect:key-untouched", ("mtproto.go",
 '''func (m *MTProto) Disconnect() error {
	// stop all routines
	m.stopRoutines()
''', '''func (m *MTProto) Disconnect() error {
	// stop all routines
	m.stopRoutines()
	m.encrypted = false
'''))
mut("17-ambiguous-row", "C17", "unambiguous", ("errors.go", '	{"FLOOD_WAIT_", "", reflect.Int},', '	{"FLOOD_", "", reflect.Int},\n	{"FLOOD_WAIT_", "", reflect.Int},'))
mut("17-verbless-catalogue-text", "C17", "row:FLOOD_WAIT_X", ("errors.go", '"A wait of %v seconds is required"', '"A wait of some seconds is required"'))
mut("17-check-again", "C17", "TryExpandError/helper", ("errors.go",
 '''		if err != nil {
			// the parameter is absent, not a number or out of range: that is not one of the known
			// parametrised errors, so report the text as the server sent it
			return errStr, nil
		}
''', "		check(err)\n"))
mut("17-unknown-dc-ignored", "C17", "unknown-dc-is-error", ("mtproto.go",
 '''		if !found {
			return errors.Wrapf(e, "DC with id %v not found", e.AdditionalInfo)
		}
''', '''		if !found {
			return nil
		}
'''))
mut("20-host-with-port", "C20", "hosts:membership-on-Hostname", ("telegram/deeplinks/resolver.go", "if !stringListContains(ReservedHosts(), u.Hostname()) {", "if !stringListContains(ReservedHosts(), u.Host) {"))
mut("20-overlapping-template", "C20", "templates", ("telegram/deeplinks/resolver.go", '		"/{username}": func(', '		"/{a}/{b}": func(path map[string]string, query url.Values) (Deeplink, error) {\n			return nil, errors.New("nope")\n		},\n		"/{username}": func('))
mut("20-index-guard-removed", "C20", "fixURLHost/slice", ("telegram/deeplinks/utils.go",
 '''	if i < 0 {
		// bare host like 't.me': the whole path is the host
		u.Host, u.Path = u.Path, ""
		return
	}
''', ""))
mut("20-invite-lowercased", "C20", "invite:verbatim", ("telegram/deeplinks/resolver.go", "				Invite: token,", "				Invite: strings.ToLower(token),"))
# --- C14 -----------------------------------------------------------------------------------------------
G = "internal/cmd/tlgen/gen/"
mut("14-interfaces-unsorted", "C14", "unordered-read:", (G + "tl_gen_interfaces.go", "	sort.Strings(keys)\n", "	_ = sort.Strings\n"))
mut("14-tag-format", "C14", "tag:flag-prefix", (G + "tl_gen_structs.go", 'tag = fmt.Sprintf("flag:%v", param.BitToTrigger)', 'tag = fmt.Sprintf("flags:%v", param.BitToTrigger)'))
mut("14-long-as-int32", "C14", "primitive:long", (G + "utils.go", '	case "long":\n		item = jen.Int64()', '	case "long":\n		item = jen.Int32()'))
mut("14-parser-rejects-comments-again", "C14", "comment-kinds", ("internal/cmd/tlgen/tlparser/parser.go",
 '''				if _, err := cur.ReadAt('\\n'); err != nil {
					return nil, fmt.Errorf("read comment: %w", err)
				}
''', '''				return nil, fmt.Errorf("unknown comment type: %s", ctype)
'''))

# --- rules added after the second round of seeded changes ----------------------------------------------
I = "internal/aes_ige/"
mut("03-keyschedule-window", "C03", "key-schedule:", (I + "ige_cipher.go", "t_b = append(t_b, auth_key[48+x:48+x+16]...)", "t_b = append(t_b, auth_key[40+x:40+x+16]...)"))
mut("03-keyschedule-sha-order", "C03", "key-schedule:", (I + "ige_cipher.go", "	t_c = append(t_c, auth_key[64+x:64+x+32]...)\n	t_c = append(t_c, msg_key...)", "	t_c = append(t_c, msg_key...)\n	t_c = append(t_c, auth_key[64+x:64+x+32]...)"))
mut("03-keyschedule-iv-slice", "C03", "key-schedule:", (I + "ige_cipher.go", "aes_iv = append(aes_iv, sha1_c[16:16+4]...)", "aes_iv = append(aes_iv, sha1_c[12:12+4]...)"))
mut("03-keyschedule-direction-offset", "C03", "key-schedule:server-to-client", (I + "ige_cipher.go", "func generateAESIGE(msg_key, auth_key []byte, decode bool) ([]byte, []byte) {\n	var x int\n	if decode {\n		x = 8", "func generateAESIGE(msg_key, auth_key []byte, decode bool) ([]byte, []byte) {\n	var x int\n	if decode {\n		x = 16"))
mut("05-tempkeys-swapped-nonces", "C05", "temp-keys:tmp_aes_iv", (I + "aes.go", "	copy(t3[0:], nonceSecondBytes)\n	copy(t3[32:], nonceSecondBytes)", "	copy(t3[0:], nonceSecondBytes)\n	copy(t3[32:], nonceServerBytes)"))
mut("06-nonce-hash-wrong-aux", "C06", "formula:new_nonce_hash1", (H, "copy(t4[33:], dry.Sha1Byte(m.GetAuthKey())[0:8])", "copy(t4[33:], dry.Sha1Byte(m.GetAuthKey())[12:20])"))
mut("06-nonce-hash-marker-byte", "C07", "formula:new_nonce_hash1", (H, "	t4[32] = 1\n", "	t4[32] = 2\n"))
mut("06-salt-from-wrong-half", "C06", "formula:server_salt", (H, "	copy(salt, newNonceBytes[:8])", "	copy(salt, newNonceBytes[8:16])"))
mut("06-rsa-payload-hash-after", "C06", "formula:rsa_payload", (H, "copy(hashAndMsg, append(dry.Sha1(string(message)), message...))", "copy(hashAndMsg, append(message, dry.Sha1(string(message))...))"))
mut("06-gb-other-exponent", "C06", "formula:dh-powers", ("internal/math/math.go", "	g_b = big.NewInt(0).Exp(big.NewInt(int64(g)), b, dh_prime)", "	g_b = big.NewInt(0).Exp(big.NewInt(int64(g)), rndmax, dh_prime)"))
mut("18-srp-k-without-padding-order", "C18", "srp:M1", ("telegram/internal/srp/2fa.go", "	k := bytesToBig(calcSHA256(mp.P, gBytes))", "	k := bytesToBig(calcSHA256(gBytes, mp.P))"))
mut("18-srp-u-order", "C18", "srp:M1", ("telegram/internal/srp/2fa.go", "	u := bytesToBig(calcSHA256(ga, gb))", "	u := bytesToBig(calcSHA256(gb, ga))"))
mut("18-srp-exponent-mod-p", "C18", "srp:M1", ("telegram/internal/srp/2fa.go", "	sa := pad256(bigExp(t, u.Mul(u, x).Add(u, a), p).Bytes())", "	e := u.Mul(u, x).Add(u, a)\n	sa := pad256(bigExp(t, e.Mod(e, p), p).Bytes())"))
mut("18-srp-salting-order", "C18", "srp:M1", ("telegram/internal/srp/2fa.go", "	return calcSHA256(salt, data, salt)", "	return calcSHA256(data, salt, salt)"))
mut("18-calcsha-skips-first", "C18", "summary:calcSHA256", ("telegram/internal/srp/2fa.go", "	for _, arr := range arrays {\n		h.Write(arr)\n	}", "	for _, arr := range arrays[1:] {\n		h.Write(arr)\n	}"))
mut("04-refusal-returns-nil-nil", "C04", "refusal:DeserializeEncrypted", ("internal/mtproto/messages/messages.go", '		return nil, errors.New("wrong message key, can\'t trust to sender")', '		return nil, errors.Wrap(err, "wrong message key, can\'t trust to sender")'))
mut("12-store-skips-write", "C12", "success-means-written", ("internal/session/file.go", "	file := new(tokenStorageFormat)\n	file.writeSession(s)", "	if l.cached == s {\n		return nil\n	}\n	file := new(tokenStorageFormat)\n	file.writeSession(s)"))
mut("09-nonblocking-delivery", "C09", "deliver:not-skippable", ("network.go", "	v <- data\n", "	select {\n	case v <- data:\n	default:\n	}\n"))
# negative controls: behaviour-preserving refactors
mut("07N-guards-in-helpers", "C07", None, (H,
 """	if nonceFirst.Cmp(dhg.Nonce.Int) != 0 {
		return fmt.Errorf("handshake: Wrong nonce: %v, %v", nonceFirst, dhg.Nonce)
	}
	if nonceServer.Cmp(dhg.ServerNonce.Int) != 0 {
		return fmt.Errorf("handshake: Wrong server_nonce: %v, %v", nonceServer, dhg.ServerNonce)
	}
""", """	if err := seedCheckNonce(nonceFirst, dhg.Nonce); err != nil {
		return err
	}
	if !seedSame(nonceServer, dhg.ServerNonce) {
		return fmt.Errorf("handshake: Wrong server_nonce: %v, %v", nonceServer, dhg.ServerNonce)
	}
"""), (H, "// https://tlgrm.ru/docs/mtproto/auth_key\n", """func seedCheckNonce(a, b *tl.Int128) error {
	if a.Cmp(b.Int) != 0 {
		return errors.New("handshake: Wrong nonce")
	}
	return nil
}

func seedSame(a, b *tl.Int128) bool { return a.Cmp(b.Int) == 0 }

// https://tlgrm.ru/docs/mtproto/auth_key
"""))
mut("06N-fingerprint-no-break", "C06", None, (H, "			found = true\n			break\n", "			found = true\n"))
mut("06N-nonce-hash-by-append", "C06", None, (H,
 """	t4 := make([]byte, 32+1+8) // nolint:gomnd ALL PROTOCOL IS A MAGIC
	copy(t4[0:], newNonceBytes)
	t4[32] = 1
	copy(t4[33:], dry.Sha1Byte(m.GetAuthKey())[0:8])
""", """	t4 := make([]byte, 0, 32+1+8)
	t4 = append(t4, newNonceBytes...)
	t4 = append(t4, 1)
	t4 = append(t4, dry.Sha1Byte(m.GetAuthKey())[:8]...)
"""))
mut("18N-srp-operand-order", "C18", None, ("telegram/internal/srp/2fa.go", "	kv := k.Mul(k, v).Mod(k, p)", "	kv := k.Mul(v, k).Mod(k, p)"))
mut("09N-delete-before-send", "C09", None, ("network.go", "	v <- data\n\n	m.responseChannels.Delete(msgID)\n	m.expectedTypes.Delete(msgID)\n", "	m.responseChannels.Delete(msgID)\n	m.expectedTypes.Delete(msgID)\n	v <- data\n"))

# --- third round: rules added after the round-3 seeds, with behaviour-preserving controls -----------------
mut("03-parity-signed-remainder", "C03", "accept:encrypted", ("internal/mtproto/messages/messages.go", "	mod := msg.MsgID & 3\n	if mod != 1 && mod != 3 {\n		return nil, fmt.Errorf(\"wrong bits of message_id: %d\", mod)", "	mod := msg.MsgID % 4\n	if mod != 1 && mod != 3 {\n		return nil, fmt.Errorf(\"wrong bits of message_id: %d\", mod)"))
mut("03-length-test-off-by-one", "C03", "accept:encrypted/lengths", ("internal/mtproto/messages/messages.go", "len(decrypted)-(tl.LongLen+tl.LongLen+tl.LongLen+tl.WordLen+tl.WordLen) < int(messageLen) {", "len(decrypted)-(tl.LongLen+tl.LongLen+tl.LongLen+tl.WordLen+tl.WordLen) <= int(messageLen) {"))
mut("06-ga-length-check", "C06", "wire-number:", (H, "	// this apparently is just part of diffie hellman", "	if len(dhi.GA) != 256 {\n		return errors.New(\"handshake: Wrong g_a\")\n	}\n	// this apparently is just part of diffie hellman"))
mut("08-abridged-max-words-in-bytes", "C08", "admit:abridged", ("internal/mode/arbiged.go", "	size *= tl.WordLen\n", "	size *= tl.WordLen\n	if size > 1<<18 {\n		return nil, fmt.Errorf(\"announced message is too long: %d bytes\", size)\n	}\n"))
mut("09-add-under-rlock", "C09", "locks:SyncIntObjectChan.Add", ("internal/utils/sync_stuff.go", "func (s *SyncIntObjectChan) Add(key int, value chan tl.Object) {\n	s.mutex.Lock()\n	s.m[key] = value\n	s.mutex.Unlock()", "func (s *SyncIntObjectChan) Add(key int, value chan tl.Object) {\n	s.mutex.RLock()\n	s.m[key] = value\n	s.mutex.RUnlock()"))
mut("11-delete-closes-channel", "C11", "close:", ("internal/utils/sync_stuff.go", "func (s *SyncIntObjectChan) Delete(key int) bool {\n	s.mutex.Lock()\n	_, ok := s.m[key]\n	delete(s.m, key)\n	s.mutex.Unlock()\n	return ok", "func (s *SyncIntObjectChan) Delete(key int) bool {\n	s.mutex.Lock()\n	v, ok := s.m[key]\n	delete(s.m, key)\n	s.mutex.Unlock()\n	if ok {\n		close(v)\n	}\n	return ok"))
mut("12-hostname-only-when-empty", "C12", "LoadSession:Hostname", ("mtproto_utils.go", "	m.addr = s.Hostname\n", "	if m.addr == \"\" {\n		m.addr = s.Hostname\n	}\n"))
mut("14-islist-ignored", "C14", "reads:generateMethodFunction", ("internal/cmd/tlgen/gen/tl_gen_methods.go", "	resp := g.typeIdFromSchemaType(obj.Response.Type)\n	if obj.Response.IsList {", "	resp := g.typeIdFromSchemaType(obj.Response.Type)\n	if false {"))
mut("17-handled-migrate-returns-error", "C17", "handled-means-nil", ("mtproto.go", "		m.addr = newIP\n		err := m.Reconnect()\n		return err\n", "		m.addr = newIP\n		if err := m.Reconnect(); err != nil {\n			return err\n		}\n		return e\n"))
mut("18-wrapper-trims-password", "C18", "srp-wrapper:password", ("telegram/srp.go", "	res, err := srp.GetInputCheckPassword(password, accountPassword.SRPB, mp)", "	res, err := srp.GetInputCheckPassword(strings.TrimSpace(password), accountPassword.SRPB, mp)"), ("telegram/srp.go", "import (\n", "import (\n	\"strings\"\n"))
mut("20-trimleft-before-split", "C20", "segments-verbatim", ("telegram/deeplinks/template.go", "	pathItems := strings.Split(path, \"/\")", "	pathItems := strings.Split(strings.TrimLeft(path, \"/\"), \"/\")"))
mut("04-validation-out-of-cipher-methods", "C04", "doAES256IGEdecrypt", ("internal/aes_ige/ige_cipher.go", "func (c *Cipher) doAES256IGEdecrypt(in, out []byte) error { //nolint:dupl потому что алгоритм на тоненького\n	if err := isCorrectData(in); err != nil {\n		return err\n	}\n", "func (c *Cipher) doAES256IGEdecrypt(in, out []byte) error { //nolint:dupl потому что алгоритм на тоненького\n"))
mut("03N-parity-unsigned-remainder", "C03", None, ("internal/mtproto/messages/messages.go", "	mod := msg.MsgID & 3\n	if mod != 1 && mod != 3 {\n		return nil, fmt.Errorf(\"wrong bits of message_id: %d\", mod)", "	mod := uint64(msg.MsgID) % 4\n	if mod != 1 && mod != 3 {\n		return nil, fmt.Errorf(\"wrong bits of message_id: %d\", mod)"))
mut("20N-trimprefix-before-split", "C20", None, ("telegram/deeplinks/template.go", "	tplPathItems := strings.Split(tpl, \"/\")\n	pathItems := strings.Split(path, \"/\")", "	tplPathItems := strings.Split(strings.TrimPrefix(tpl, \"/\"), \"/\")\n	pathItems := strings.Split(strings.TrimPrefix(path, \"/\"), \"/\")"))
mut("09N-blocking-select-send", "C09", None, ("network.go", "	v <- data\n", "	select {\n	case v <- data:\n	}\n"))
mut("04N-refusal-wraps-tested-error", "C04", None, ("internal/mtproto/messages/messages.go", "	if err != nil {\n		return nil, errors.Wrap(err, \"decrypting message\")\n	}", "	if err != nil {\n		return nil, fmt.Errorf(\"decrypting message: %w\", err)\n	}"))

# --- fourth round ---------------------------------------------------------------------------------------
mut("01-marshal-pooled-buffer", "C01", "marshal:result-owned-by-caller", ("internal/encoding/tl/encoder.go", "func Marshal(v any) ([]byte, error) {\n	buf := bytes.NewBuffer(nil)\n", "var seedPool = sync.Pool{New: func() any { return bytes.NewBuffer(nil) }}\n\nfunc Marshal(v any) ([]byte, error) {\n	buf := seedPool.Get().(*bytes.Buffer)\n	buf.Reset()\n	defer seedPool.Put(buf)\n"), ("internal/encoding/tl/encoder.go", "	\"reflect\"\n", "	\"reflect\"\n	\"sync\"\n"))
mut("09-container-one-object", "C09", "container-item:fresh-per-iteration", ("internal/mtproto/objects/types.go", "	for i := 0; i < count; i++ {\n		msg := new(messages.Encrypted)\n", "	msg := new(messages.Encrypted)\n	for i := 0; i < count; i++ {\n"))
mut("06-splitpq-int64", "C06", "pq-narrowed", ("internal/math/math.go", "		x := big.NewInt(0).Rand(rnd, rndmax)\n		whatnext := big.NewInt(0).Sub(what, big1)\n		x = x.Mod(x, whatnext)\n		x = x.Add(x, big1)\n", "		x := big.NewInt(rnd.Int63n(what.Int64()-1) + 1)\n"))
mut("08-intermediate-coalesced-small-buffer", "C08", "wire:intermediate", ("internal/mode/intermediate.go", "	if _, err := m.conn.Write(size); err != nil {\n		return err\n	}\n", "	if len(msg) <= 1024 {\n		var frame [1024]byte\n		n := copy(frame[:], size)\n		n += copy(frame[n:], msg)\n		_, err := m.conn.Write(frame[:n])\n		return err\n	}\n	if _, err := m.conn.Write(size); err != nil {\n		return err\n	}\n"))
mut("14-bit31-refused", "C14", "flag-bits:0..31", ("internal/cmd/tlgen/tlparser/parser.go", "		param.BitToTrigger, err = strconv.Atoi(digits)\n		if err != nil {", "		param.BitToTrigger, err = strconv.Atoi(digits)\n		if err != nil || param.BitToTrigger >= 31 {"))
mut("19-secure-random-overwrites", "C19", "only-writer:srp_ephemeral", ("telegram/internal/srp/2fa.go", "	return getInputCheckPassword(password, srpB, mp, random)\n", "	for i, v := range srpB {\n		random[i%randombyteLen] = v\n	}\n	return getInputCheckPassword(password, srpB, mp, random)\n"))
mut("20-query-decoded-into-result", "C20", "not-rewritten", ("telegram/deeplinks/resolver.go", "			return &ResolveParameters{\n				Domain: strings.ToLower(username),\n			}, nil", "			res := &ResolveParameters{\n				Domain: strings.ToLower(username),\n			}\n			if err := decoder.Decode(res, query); err != nil {\n				return nil, err\n			}\n			return res, nil"))
mut("04-plain-reader-uint64-of-short", "C04", "binary:Uint64", ("internal/mtproto/messages/messages.go", "	_ = d.PopRawBytes(tl.LongLen) // authKeyHash, always 0 if unencrypted\n", "	if keyHash := d.PopRawBytes(tl.LongLen); binary.LittleEndian.Uint64(keyHash) != 0 {\n		return nil, errors.New(\"unencrypted message under non-zero auth key hash\")\n	}\n"))
mut("15-decodevalue-falls-through", "C15", "decodeValue/panic", ("internal/encoding/tl/decoder.go", "	if d.err != nil {\n		// kinds that can't be decoded (a plain struct, map, array) are reported, not passed on to the switch below\n		return\n	}\n", ""))
mut("17-unchecked-migrate-assertion", "C17", "tryToProcessErr/assert", ("mtproto.go", "		dcID, ok := e.AdditionalInfo.(int)\n		if !ok {\n			// the server text carried no usable data center number (e.g. the literal \"PHONE_MIGRATE_X\")\n			return e\n		}\n		newIP, found := m.dclist[dcID]", "		newIP, found := m.dclist[e.AdditionalInfo.(int)]"))
mut("08N-writer-single-write", "C08", None, ("internal/mode/intermediate.go", "	if _, err := m.conn.Write(size); err != nil {\n		return err\n	}\n	if _, err := m.conn.Write(msg); err != nil {\n		return err\n	}\n", "	if _, err := m.conn.Write(append(size, msg...)); err != nil {\n		return err\n	}\n"))
mut("01N-marshal-fresh-copy", "C01", None, ("internal/encoding/tl/encoder.go", "	return buf.Bytes(), nil\n}\n\nfunc (c *Encoder) encodeValue(", "	return append([]byte(nil), buf.Bytes()...), nil\n}\n\nfunc (c *Encoder) encodeValue("))

# --- fifth round ----------------------------------------------------------------------------------------
IGE = "internal/aes_ige/ige_cipher.go"
mut("05-encrypt-wipes-plaintext", "C05", "R05.B", (IGE, "		copy(out[i:], c.t)\n	}\n	return nil\n}\n\nfunc (c *Cipher) doAES256IGEdecrypt", "		copy(out[i:], c.t)\n	}\n	for i := range in {\n		in[i] = 0\n	}\n	return nil\n}\n\nfunc (c *Cipher) doAES256IGEdecrypt"))
mut("09-gzip-break-before-append", "C09", "R09.Z", ("internal/mtproto/objects/types.go", "		n, _ := gz.Read(b)\n\n		decompressed = append(decompressed, b[0:n]...)\n		if n <= 0 {\n			break\n		}\n", "		n, err := gz.Read(b)\n		if err != nil {\n			break\n		}\n\n		decompressed = append(decompressed, b[0:n]...)\n"))
mut("07-service-mode-off-on-reqpq-error", "C07", "C07/", (H, "	res, err := m.reqPQ(nonceFirst)\n	if err != nil {\n", "	res, err := m.reqPQ(nonceFirst)\n	if err != nil {\n		m.serviceModeActivated = false\n"))
mut("04-body-longer-than-declared", "C04", "R04.G", ("internal/mtproto/messages/messages.go", "	msg.Msg = d.PopRawBytes(int(messageLen))\n\n	return msg, nil", "	msg.Msg = d.PopRawBytes(len(decrypted) - 32)\n\n	return msg, nil"))
mut("01-enum-any-enum-id", "C01", "R01.E", ("internal/encoding/tl/decoder.go", "				if _, isEnum := enumCrcs[crcCode]; isEnum && objectByCrc[crcCode] == e.Type() {", "				if _, isEnum := enumCrcs[crcCode]; isEnum {"))
mut("01-takeout-wrapper-not-registered", "C01", "R01.U", ("telegram/methods_special.go", "		&InvokeWithLayerParams{},\n		&InvokeWithTakeoutParams{},\n	)", "		&InvokeWithLayerParams{},\n	)"))
mut("13-future-salt-fields-swapped", "C13", "service-fields:FutureSalt", ("internal/mtproto/objects/types.go", "type FutureSalt struct {\n	ValidSince int32\n	ValidUntil int32\n", "type FutureSalt struct {\n	ValidUntil int32\n	ValidSince int32\n"))
mut("20-error-path-reads-host", "C20", "errpath:", ("telegram/deeplinks/resolver.go", "		return nil, errors.Wrap(err, \"not a uri\")", "		return nil, errors.Wrap(err, \"not a uri: \"+u.Host)"))
mut("19-zero-exponent-replaced", "C19", "only-writer:dh_exponent-int", ("internal/math/math.go", "	g_b = big.NewInt(0).Exp(big.NewInt(int64(g)), b, dh_prime)\n	g_ab", "	if b.Sign() == 0 {\n		b.SetInt64(2)\n	}\n	g_b = big.NewInt(0).Exp(big.NewInt(int64(g)), b, dh_prime)\n	g_ab"))
mut("15-popvector-silent-nil", "C15", "R15.N", ("internal/encoding/tl/cursor_r.go", "	if int64(size) > int64(d.buf.Len()/WordLen) {\n		d.err = fmt.Errorf(\"vector of %v elements can't fit in %v bytes left\", size, d.buf.Len())\n		return nil\n	}", "	if int64(size) > int64(d.buf.Len()/WordLen) {\n		return nil\n	}"))
mut("17-default-dcs-through-helper", "C17", "dc-table-per-client", ("utils.go", "func defaultDCList() map[int]string {\n	return map[int]string{", "func defaultDCList() map[int]string { return seedDCs }\n\nvar seedDCs = seedDCList()\n\nfunc seedDCList() map[int]string {\n	return map[int]string{"))
mut("14-declared-obj-by-lowercase", "C14", "obj-suffix:same-predicate", ("internal/cmd/tlgen/gen/tl_gen_interfaces.go", "			if goify(_type.Name, true) == goify(i, true) {", "			if strings.ToLower(_type.Name) == strings.ToLower(i) {"), ("internal/cmd/tlgen/gen/tl_gen_interfaces.go", "import (\n	\"sort\"\n", "import (\n	\"sort\"\n	\"strings\"\n"))
mut("12-load-lstat", "C12", "probe-follows-links", ("internal/session/file.go", "	info, err := os.Stat(l.path)", "	info, err := os.Lstat(l.path)"))
mut("11-store-skips-same-salt", "C11", "R11.S/store:success-means-written", ("internal/session/file.go", "func (l *genericFileSessionLoader) Store(s *Session) error {\n", "func (l *genericFileSessionLoader) Store(s *Session) error {\n	if l.cached != nil && l.cached.Salt == s.Salt {\n		return nil\n	}\n"))
mut("19N-exponent-reduced-mod-p", "C19", None, ("internal/math/math.go", "	g_b = big.NewInt(0).Exp(big.NewInt(int64(g)), b, dh_prime)\n	g_ab", "	b.Mod(b, dh_prime)\n	g_b = big.NewInt(0).Exp(big.NewInt(int64(g)), b, dh_prime)\n	g_ab"))
mut("15N-wrapped-slice-under-clear-error", "C15", None, ("internal/encoding/tl/decoder.go", "		res := d.popVector(_typ.Elem(), true)\n		if d.err != nil {\n			return nil\n		}\n\n		return &WrappedSlice{res}\n", "		res := d.popVector(_typ.Elem(), true)\n		if d.err == nil {\n			return &WrappedSlice{res}\n		}\n\n		return nil\n"))
mut("14N-both-deciders-equalfold", "C14", None, ("internal/cmd/tlgen/gen/tl_gen_interfaces.go", "			if goify(_type.Name, true) == goify(i, true) {", "			if strings.EqualFold(_type.Name, i) {"), ("internal/cmd/tlgen/gen/tl_gen_interfaces.go", "import (\n	\"sort\"\n", "import (\n	\"sort\"\n	\"strings\"\n"), ("internal/cmd/tlgen/gen/schema.go", "			if goify(_struct.Name, true) == goify(_struct.Interface, true) {", "			if strings.EqualFold(_struct.Name, _struct.Interface) {"))
mut("06N-makeauthkey-extra-defer", "C06", None, (H, "	m.serviceModeActivated = true\n	nonceFirst := tl.RandomInt128()\n", "	defer func() {}()\n	m.serviceModeActivated = true\n	nonceFirst := tl.RandomInt128()\n"))
mut("13N-service-field-renamed", "C13", None, ("internal/mtproto/objects/types.go", "type FutureSalt struct {\n	ValidSince int32\n	ValidUntil int32\n", "type FutureSalt struct {\n	ValidFrom  int32\n	ValidUntil int32\n"))

# --- sixth round ----------------------------------------------------------------------------------------
DEC = "internal/encoding/tl/decoder.go"
mut("01-hint-advanced-after-elements", "C01", "hints:advanced-before-elements", (DEC, "		d.expectedTypes = d.expectedTypes[1:]\n\n		res := d.popVector(_typ.Elem(), true)\n", "		res := d.popVector(_typ.Elem(), true)\n		d.expectedTypes = d.expectedTypes[1:]\n"))
mut("02-nil-pointer-member-skipped", "C02", "R02.G", ("internal/encoding/tl/encoder.go", "		if flag&(1<<info.index) == 0 || info.encodedInBitflag {\n			continue\n		}", "		if flag&(1<<info.index) == 0 || info.encodedInBitflag || (v.Field(i).Kind() == reflect.Ptr && v.Field(i).IsNil()) {\n			continue\n		}"))
mut("03-empty-body-refused", "C03", "nothing-refuses-after-the-key-check", ("internal/mtproto/messages/messages.go", "	msg.Msg = d.PopRawBytes(int(messageLen))\n\n	return msg, nil", "	msg.Msg = d.PopRawBytes(int(messageLen))\n	if len(msg.Msg) == 0 {\n		return nil, errors.New(\"empty message\")\n	}\n\n	return msg, nil"))
mut("06-tempkey-pad-full-block", "C06", "R06.A", ("internal/aes_ige/aes.go", "	needToAdd := (16 - overflowedLen) % 16\n", "	needToAdd := 16 - overflowedLen\n"))
mut("07-recover-swallows-panic", "C07", "recover-reports-error", (H, "	m.serviceModeActivated = true\n	nonceFirst := tl.RandomInt128()\n", "	defer func() { _ = recover() }()\n	m.serviceModeActivated = true\n	nonceFirst := tl.RandomInt128()\n"))
mut("08-abridged-reused-buffer", "C08", "owned-result:abridged", ("internal/mode/arbiged.go", "type abridged struct {\n	conn io.ReadWriter\n}", "type abridged struct {\n	conn io.ReadWriter\n	buf  []byte\n}"), ("internal/mode/arbiged.go", "	msg := make([]byte, size)\n", "	if cap(m.buf) < size {\n		m.buf = make([]byte, size)\n	}\n	msg := m.buf[:size]\n"))
mut("10-readmsg-drops-id-zero", "C10", "read-message-is-handed-on", ("mtproto.go", "	err = m.processResponse(response)\n	if err != nil {\n		return errors.Wrap(err, \"processing response\")", "	if response.GetMsgID() == 0 {\n		return nil\n	}\n	err = m.processResponse(response)\n	if err != nil {\n		return errors.Wrap(err, \"processing response\")"))
mut("09-readmsg-drops-id-zero", "C09", "read-message-is-handed-on", ("mtproto.go", "	err = m.processResponse(response)\n	if err != nil {\n		return errors.Wrap(err, \"processing response\")", "	if response.GetMsgID() == 0 {\n		return nil\n	}\n	err = m.processResponse(response)\n	if err != nil {\n		return errors.Wrap(err, \"processing response\")"))
mut("12-load-single-read", "C12", "load:whole-file-read", ("internal/session/file.go", "	data, err := ioutil.ReadFile(l.path)\n	if err != nil {\n		return nil, errors.Wrap(err, \"reading file\")\n	}\n", "	fh, err := os.Open(l.path)\n	if err != nil {\n		return nil, errors.Wrap(err, \"reading file\")\n	}\n	buf := make([]byte, 8192)\n	n, err := fh.Read(buf)\n	fh.Close()\n	if err != nil {\n		return nil, errors.Wrap(err, \"reading file\")\n	}\n	data := buf[:n]\n"))
mut("13-wrapper-ignores-layer", "C13", "wrapper-method:InvokeWithLayer", ("telegram/methods_special.go", "		Layer: int32(layer),\n", "		Layer: 121,\n"))
mut("14-methods-sorted-copy", "C14", "sort-comparator", ("internal/cmd/tlgen/gen/tl_gen_methods.go", "	sort.Slice(g.schema.Methods, func(i, j int) bool {\n		return g.schema.Methods[i].Name < g.schema.Methods[j].Name\n	})\n\n	for _, method := range g.schema.Methods {", "	methods := append([]tlparser.Method(nil), g.schema.Methods...)\n	sort.Slice(methods, func(i, j int) bool {\n		return g.schema.Methods[i].Name < g.schema.Methods[j].Name\n	})\n\n	for _, method := range methods {"))
mut("15-decode-counter", "C15", "global-write", (DEC, "func DecodeUnknownObject(data []byte, expectNextTypes ...reflect.Type) (Object, error) {\n", "var decodedObjects int\n\nfunc DecodeUnknownObject(data []byte, expectNextTypes ...reflect.Type) (Object, error) {\n	decodedObjects++\n"))
mut("16-warning-names-unwrapped-value", "C16", "typeof:(*mtproto.MTProto).processResponse", ("mtproto.go", "reflect.TypeOf(message).String()))", "reflect.TypeOf(tl.UnwrapNativeTypes(message)).String()))"))
mut("20-host-cut-at-last-slash", "C20", "recovered-host-ends-at-first-slash", ("telegram/deeplinks/utils.go", "	i := strings.IndexRune(u.Path, '/')", "	i := strings.LastIndex(u.Path, \"/\")"))
mut("12N-load-open-defer-readall", "C12", None, ("internal/session/file.go", "	data, err := ioutil.ReadFile(l.path)\n	if err != nil {\n		return nil, errors.Wrap(err, \"reading file\")\n	}\n", "	fh, err := os.Open(l.path)\n	if err != nil {\n		return nil, errors.Wrap(err, \"reading file\")\n	}\n	defer fh.Close()\n\n	data, err := ioutil.ReadAll(fh)\n	if err != nil {\n		return nil, errors.Wrap(err, \"reading file\")\n	}\n"))
mut("07N-recover-stores-error", "C07", None, (H, "func (m *MTProto) makeAuthKey() error { // nolint don't know how to make method smaller\n	m.serviceModeActivated = true\n", "func (m *MTProto) makeAuthKey() (err error) { // nolint don't know how to make method smaller\n	defer func() {\n		if r := recover(); r != nil {\n			err = fmt.Errorf(\"handshake: %v\", r)\n		}\n	}()\n	m.serviceModeActivated = true\n"))
mut("15N-parsetag-helper-split", "C14", None, ("internal/encoding/tl/tag.go", "func parseTag(s reflect.StructTag) (*fieldTag, error) {\n", "func parseTag(s reflect.StructTag) (*fieldTag, error) {\n	return parseTagString(s)\n}\n\nfunc parseTagString(s reflect.StructTag) (*fieldTag, error) {\n"))
mut("20N-host-cut-with-indexbyte", "C20", None, ("telegram/deeplinks/utils.go", "	i := strings.IndexRune(u.Path, '/')", "	i := strings.IndexByte(u.Path, '/')"))

mut("01-read-empty-buffer-at-end", "C01", "zero-length-is-no-read", ("internal/encoding/tl/cursor_r.go", "	if len(buf) == 0 {\n		// nothing to read; a zero-length Read at the end of the input would answer io.EOF\n		return\n	}\n", ""))
mut("01-named-unmarshaler-without-id", "C01", "by-name:id-consumed", (DEC, "	if o, isObject := res.(Object); isObject {\n		if _, handWritten := res.(Unmarshaler); handWritten {\n			if crc := d.PopCRC(); d.err == nil && crc != o.CRC() {\n				d.err = fmt.Errorf(\"invalid crc code: %#v, want: %#v\", crc, o.CRC())\n			}\n			if d.err != nil {\n				return errors.Wrapf(d.err, \"decode %T\", res)\n			}\n		}\n	}\n", ""))

mut("07-pq-primality-not-tested", "C07", "guard:resPQ.pq", (H, "	if pq.Cmp(big.NewInt(3)) <= 0 || pq.ProbablyPrime(20) { //nolint:gomnd certainty of the primality test", "	if pq.Cmp(big.NewInt(3)) <= 0 {"))
mut("07-pq-lower-bound-dropped", "C07", "guard:resPQ.pq", (H, "	if pq.Cmp(big.NewInt(3)) <= 0 || pq.ProbablyPrime(20) { //nolint:gomnd certainty of the primality test", "	if pq.ProbablyPrime(20) {"))
mut("07N-pq-check-in-two-steps", "C07", None, (H, "	if pq.Cmp(big.NewInt(3)) <= 0 || pq.ProbablyPrime(20) { //nolint:gomnd certainty of the primality test\n		return errors.New(\"handshake: pq is not a product of two primes\")\n	}\n", "	if pq.Cmp(big.NewInt(1)) <= 0 {\n		return errors.New(\"handshake: pq is too small\")\n	}\n	if pq.ProbablyPrime(32) {\n		return errors.New(\"handshake: pq is prime\")\n	}\n"))

mut("15-depth-counted-not-checked", "C15", "recursion:gated", (DEC, "	if d.depth > maxNesting {\n		d.err = fmt.Errorf(\"values are nested deeper than %v levels\", maxNesting)\n		return\n	}\n", ""))
mut("15-gzip-decoded-as-own-message", "C15", "recursion:gated", ("internal/mtproto/objects/types.go", "	t.Obj, err = d.DecodeNestedObject(obj)\n", "	t.Obj, err = tl.DecodeUnknownObject(obj)\n"))
mut("15N-smaller-depth-limit", "C15", None, ("internal/encoding/tl/cursor_r.go", "const maxNesting = 1000", "const maxNesting = 256"))

# --- seventh round --------------------------------------------------------------------------------------
mut("01-depth-not-given-back", "C01", "depth:balanced", (DEC, "	d.depth++\n	defer func() { d.depth-- }()\n", "	d.depth++\n"))
mut("15-depth-not-given-back", "C15", "depth:balanced", (DEC, "	d.depth++\n	defer func() { d.depth-- }()\n", "	d.depth++\n"))
mut("03-msgkey-scratch-shared", "C03", "global-write", ("internal/mtproto/messages/messages.go", "func DeserializeEncrypted(data, authKey []byte) (*Encrypted, error) {\n", "var seedLastKey []byte\n\nfunc DeserializeEncrypted(data, authKey []byte) (*Encrypted, error) {\n	seedLastKey = append(seedLastKey[:0], authKey...)\n"))
mut("07-wrong-kind-exit-wraps-nil", "C07", "abort-returns-error", (H, "		return errors.New(\"handshake: Need ServerDHParamsOk\")", "		return errors.Wrap(err, \"handshake: Need ServerDHParamsOk\")"))
mut("08-mode-reader-concludes-eof", "C08", "eof-only-when-received", ("internal/mode/intermediate.go", "	if n != int(size) {\n", "	if n == 0 && size == 0 {\n		return nil, io.EOF\n	}\n	if n != int(size) {\n"))
mut("14-tool-lstats-output-dir", "C14", "input-read-through-links", ("internal/cmd/tlgen/main.go", "	b, err := ioutil.ReadFile(tlfile)\n", "	if _, err := os.Lstat(tlfile); err != nil {\n		return fmt.Errorf(\"read schema file: %w\", err)\n	}\n	b, err := ioutil.ReadFile(tlfile)\n"))
mut("16-container-preallocated", "C16", "make:make([]*messages.Encrypted, cap)", ("internal/mtproto/objects/types.go", "	arr := make([]*messages.Encrypted, 0)\n	for i := 0; i < count; i++ {", "	arr := make([]*messages.Encrypted, 0, count)\n	for i := 0; i < count; i++ {"))
mut("17-retry-on-internal-error", "C17", "only-handled-errors-are-reissued", ("mtproto.go", "		realErr := RpcErrorToNative(r)\n\n		err = m.tryToProcessErr(realErr.(*ErrResponseCode))", "		if r.ErrorCode == 500 { //nolint:gomnd not magic\n			return m.makeRequest(data, expectedTypes...)\n		}\n		realErr := RpcErrorToNative(r)\n\n		err = m.tryToProcessErr(realErr.(*ErrResponseCode))"))
mut("05-decrypt-truncates-first", "C05", "decrypt:validates-what-it-was-given", ("internal/aes_ige/aes.go", "	out := make([]byte, len(msg))\n	if err := c.doAES256IGEdecrypt(msg, out); err != nil {", "	whole := msg[:len(msg)&^15]\n	out := make([]byte, len(whole))\n	if err := c.doAES256IGEdecrypt(whole, out); err != nil {"))
mut("12-temp-file-in-tmpdir", "C12", "temp-file-beside-the-target", ("internal/session/file.go", "	return ioutil.WriteFile(l.path, data, 0600)\n", "	tmp, err := ioutil.TempFile(os.TempDir(), \"session.*\")\n	if err != nil {\n		return err\n	}\n	if _, err = tmp.Write(data); err == nil {\n		err = tmp.Close()\n	}\n	if err != nil {\n		return err\n	}\n	return os.Rename(tmp.Name(), l.path)\n"))
mut("12N-write-aside-and-rename", "C12", None, ("internal/session/file.go", "	return ioutil.WriteFile(l.path, data, 0600)\n", "	tmp, err := ioutil.TempFile(dir, filepath.Base(l.path)+\".*\")\n	if err != nil {\n		return err\n	}\n	defer os.Remove(tmp.Name())\n	if _, err = tmp.Write(data); err == nil {\n		err = tmp.Close()\n	}\n	if err != nil {\n		return err\n	}\n	return os.Rename(tmp.Name(), l.path)\n"))
mut("11N-write-aside-and-rename", "C11", None, ("internal/session/file.go", "	return ioutil.WriteFile(l.path, data, 0600)\n", "	tmp, err := ioutil.TempFile(dir, filepath.Base(l.path)+\".*\")\n	if err != nil {\n		return err\n	}\n	defer os.Remove(tmp.Name())\n	if _, err = tmp.Write(data); err == nil {\n		err = tmp.Close()\n	}\n	if err != nil {\n		return err\n	}\n	return os.Rename(tmp.Name(), l.path)\n"))
mut("15N-depth-given-back-by-deferred-method", "C15", None, (DEC, "	d.depth++\n	defer func() { d.depth-- }()\n", "	d.depth++\n	defer d.leave()\n"), (DEC, "func (d *Decoder) decodeValue(value reflect.Value) {\n", "func (d *Decoder) leave() { d.depth-- }\n\nfunc (d *Decoder) decodeValue(value reflect.Value) {\n"))

mut("15-string-allocated-unchecked", "C15", "PopMessage/make", ("internal/encoding/tl/cursor_r.go", "	if realSize > d.buf.Len() {\n		d.err = fmt.Errorf(\"message of %v bytes can't fit in %v bytes left\", realSize, d.buf.Len())\n		return nil\n	}\n", ""))
mut("20-bracketed-host-accepted", "C20", "address-literals-refused", ("telegram/deeplinks/resolver.go", "	if strings.HasPrefix(u.Host, \"[\") {\n		return nil, fmt.Errorf(\"'%v' is an address literal, not a hostname owned by telegram\", u.Host)\n	}\n", ""))

# --- eighth round ---------------------------------------------------------------------------------------
mut("05-encrypt-own-size-limit", "C05", "wrapper-refuses-only-what-the-cipher-refuses", ("internal/aes_ige/aes.go", "func Encrypt(msg, key []byte) ([]byte, error) {\n", "func Encrypt(msg, key []byte) ([]byte, error) {\n	if len(msg) > 1<<24 {\n		return nil, ErrDataTooSmall\n	}\n"))
mut("07-fingerprint-low-half", "C07", "fingerprint/all-64-bits", (H, "		if uint64(b) == binary.LittleEndian.Uint64(keys.RSAFingerprint(m.publicKey)) {", "		if uint32(b) == binary.LittleEndian.Uint32(keys.RSAFingerprint(m.publicKey)) {"))
mut("08-readmsg-closes-on-parse-error", "C08", "read-path-never-closes", ("internal/transport/transport.go", "		code := int(int32(binary.LittleEndian.Uint32(data))) // transport error codes are signed, e.g. -404\n", "		code := int(int32(binary.LittleEndian.Uint32(data))) // transport error codes are signed, e.g. -404\n		defer t.Close()\n"))
mut("09-sendpacket-forgets-stale", "C09", "forget:only-when-served", ("network.go", "		m.responseChannels.Add(int(msgID), resp)\n", "		m.responseChannels.Delete(int(msgID) - 4)\n		m.responseChannels.Add(int(msgID), resp)\n"))
mut("12-missing-salt-is-not-found", "C12", "not-found-only-when-missing", ("internal/session/file.go", "	s, err := file.readSession()\n	if err != nil {\n		return nil, err\n	}\n", "	s, err := file.readSession()\n	if err != nil {\n		return nil, errs.NotFound(\"session\", l.path)\n	}\n"))
mut("13-enum-constants-trade-ids", "C13", "registered:", ("telegram/enums_gen.go", "	InputPrivacyKeyForwards        InputPrivacyKey = 0xa4dd4c08\n	InputPrivacyKeyPhoneCall       InputPrivacyKey = 0xfabadc5f\n", "	InputPrivacyKeyForwards        InputPrivacyKey = 0xfabadc5f\n	InputPrivacyKeyPhoneCall       InputPrivacyKey = 0xa4dd4c08\n"))
mut("16-inflate-until-eof-only", "C16", "read-loop", ("internal/mtproto/objects/types.go", "		n, _ := gz.Read(b)\n\n		decompressed = append(decompressed, b[0:n]...)\n		if n <= 0 {\n			break\n		}\n", "		n, err := gz.Read(b)\n\n		decompressed = append(decompressed, b[0:n]...)\n		if err == io.EOF {\n			break\n		}\n"), ("internal/mtproto/objects/types.go", "	\"compress/gzip\"\n", "	\"compress/gzip\"\n	\"io\"\n"))
mut("17-reconnect-restores-session", "C17", "reconnect-dials-the-address-just-set", ("mtproto.go", "	err = m.CreateConnection()\n	return errors.Wrap(err, \"recreating connection\")", "	if s, loadErr := m.tokensStorage.Load(); loadErr == nil && s != nil {\n		m.addr = s.Hostname\n	}\n	err = m.CreateConnection()\n	return errors.Wrap(err, \"recreating connection\")"))
mut("15-decode-unknown-may-return-nil-nil", "C15", "value-or-error:DecodeUnknownObject", (DEC, "	obj := d.decodeRegisteredObject()\n	if d.err != nil {\n		return nil, errors.Wrap(d.err, \"decoding predicted object\")\n	}\n	return obj, nil\n}\n\n// DecodeNestedObject", "	obj := d.decodeRegisteredObject()\n	if d.err != nil && obj == nil {\n		return nil, errors.Wrap(d.err, \"decoding predicted object\")\n	}\n	return obj, nil\n}\n\n// DecodeNestedObject"))
mut("19-generator-keeps-last-draw", "C19", "global-write", ("internal/encoding/tl/common_types.go", "func cryptoRandomBytes(size int) []byte {\n	b := make([]byte, size)\n", "var seedLastDraw []byte\n\nfunc cryptoRandomBytes(size int) []byte {\n	b := make([]byte, size)\n	seedLastDraw = b\n"))
mut("14N-excluded-lookup-via-variable", "C14", None, ("internal/cmd/tlgen/tlparser/parser.go", "		if _, found := excludedTypes[typSpace]; found {", "		_, isBuiltin := excludedTypes[typSpace]\n		if isBuiltin {"))
mut("05N-decrypt-wraps-cipher-error", "C05", None, ("internal/aes_ige/aes.go", "	out := make([]byte, len(msg))\n	if err := c.doAES256IGEdecrypt(msg, out); err != nil {\n		return nil, err\n	}", "	out := make([]byte, len(msg))\n	if err := c.doAES256IGEdecrypt(msg, out); err != nil {\n		return nil, errors.Wrap(err, \"decrypting\")\n	}"), ("internal/aes_ige/aes.go", "import (\n", "import (\n	\"github.com/pkg/errors\"\n"))

# --- ninth round ----------------------------------------------------------------------------------------
mut("01-popint-direct-read", "C01", "zero-length-is-no-read", ("internal/encoding/tl/cursor_r.go", "func (d *Decoder) PopRawBytes(size int) []byte {\n", "func (d *Decoder) seedPeek(n int) []byte {\n	val := make([]byte, n)\n	if _, err := d.buf.Read(val); err != nil {\n		d.err = err\n	}\n	return val\n}\n\nfunc (d *Decoder) PopRawBytes(size int) []byte {\n"))
mut("03-transport-refuses-old-session", "C03", "no-refusal-of-its-own", ("internal/transport/transport.go", "	mod := msg.GetMsgID() & 3", "	if msg.GetSeqNo() < 0 {\n		return nil, fmt.Errorf(\"negative seq_no\")\n	}\n	mod := msg.GetMsgID() & 3"))
mut("07-makerequest-retries-dh-fail", "C07", "reissue:only-when-asked", ("mtproto.go", "	case *errorSessionConfigsChanged:\n		return m.makeRequest(data, expectedTypes...)\n", "	case *errorSessionConfigsChanged, *objects.DHGenFail:\n		return m.makeRequest(data, expectedTypes...)\n"))
mut("09-packed-result-delivered-wrapped", "C09", "unwrapped-from-gzip", ("mtproto.go", "		obj := message.Obj\n		if v, ok := obj.(*objects.GzipPacked); ok {\n			obj = v.Obj\n		}\n", "		obj := message.Obj\n"))
mut("17-old-table-wins", "C17", "configured-address-wins", ("mtproto.go", "	if m.dclist == nil {\n		m.dclist = make(map[int]string)\n	}\n	for k, v := range in {\n		m.dclist[k] = v\n	}\n", "	merged := make(map[int]string)\n	for k, v := range in {\n		merged[k] = v\n	}\n	for k, v := range m.dclist {\n		merged[k] = v\n	}\n	m.dclist = merged\n"))
mut("17N-table-rebuilt-aside-in-order", "C17", None, ("mtproto.go", "	if m.dclist == nil {\n		m.dclist = make(map[int]string)\n	}\n	for k, v := range in {\n		m.dclist[k] = v\n	}\n", "	merged := make(map[int]string)\n	for k, v := range m.dclist {\n		merged[k] = v\n	}\n	for k, v := range in {\n		merged[k] = v\n	}\n	m.dclist = merged\n"))
mut("06-service-send-may-drop", "C06", "read-message-is-handed-on", ("mtproto.go", "		m.serviceChannel <- obj\n		return nil\n", "		select {\n		case m.serviceChannel <- obj:\n		default:\n		}\n		return nil\n"))

# wave 2
CW = "internal/encoding/tl/cursor_w.go"
ENC = "internal/encoding/tl/encoder.go"
mut("02-encoder-keeps-field-list", "C02", "no-scratch-across-reentry", (CW, "	err error\n}\n\nfunc NewEncoder", "	err error\n\n	pending []reflect.Value\n}\n\nfunc NewEncoder"), (CW, "	\"math\"\n", "	\"math\"\n	\"reflect\"\n"),
    (ENC, "	var tmpObjects = make([]reflect.Value, 0)\n", "	var tmpObjects = c.pending[:0]\n	defer func() { c.pending = tmpObjects }()\n"))
mut("02N-encoder-field-never-assigned", "C02", None, (CW, "	err error\n}\n\nfunc NewEncoder", "	err error\n\n	pending []reflect.Value\n}\n\nfunc NewEncoder"), (CW, "	\"math\"\n", "	\"math\"\n	\"reflect\"\n"),
    (ENC, "	var tmpObjects = make([]reflect.Value, 0)\n", "	var tmpObjects = c.pending[:0]\n"))
mut("02N-encoder-word-scratch", "C02", None, (CW, "	err error\n}\n\nfunc NewEncoder", "	err error\n\n	word []byte\n}\n\nfunc NewEncoder"),
    (CW, "	buf := make([]byte, WordLen)\n	binary.LittleEndian.PutUint32(buf, v)\n	e.write(buf)\n", "	if e.word == nil {\n		e.word = make([]byte, WordLen)\n	}\n	buf := e.word\n	binary.LittleEndian.PutUint32(buf, v)\n	e.write(buf)\n"))
mut("05-decrypt-trims-zeros", "C05", "result-is-the-loop-output", ("internal/aes_ige/aes.go", "		return nil, err\n	}\n\n	return out, nil\n}\n\nfunc doAES256IGEencrypt(", "		return nil, err\n	}\n\n	return bytes.TrimRight(out, \"\\x00\"), nil\n}\n\nfunc doAES256IGEencrypt("))
mut("08-detect-reads-into-announcement", "C08", "global-write", ("internal/mode/mode.go", "		_, err = conn.Read(modeAnnounce[1:])\n", "		_, err = io.ReadFull(conn, transportModeIntermediate[1:])\n		copy(modeAnnounce, transportModeIntermediate[:])\n"))
mut("12-store-renders-by-hand", "C12", "pair:json", ("internal/session/file.go", "	data, _ := json.Marshal(file)\n", "	data := []byte(\"{\\\"key\\\":\\\"\" + file.Key + \"\\\",\\\"hash\\\":\\\"\" + file.Hash + \"\\\",\\\"salt\\\":\\\"\" + file.Salt + \"\\\",\\\"hostname\\\":\\\"\" + file.Hostname + \"\\\"}\")\n"))
mut("12N-store-checks-marshal-error", "C12", None, ("internal/session/file.go", "	data, _ := json.Marshal(file)\n", "	data, err := json.Marshal(file)\n	if err != nil {\n		return err\n	}\n"))
mut("14-body-counts-without-flags", "C14", "arity-predicate", ("internal/cmd/tlgen/gen/tl_gen_methods.go", "func (g *Generator) generateMethodArgumentForMakingRequest(obj *tlparser.Method) *jen.Statement {\n	if len(obj.Parameters) > maximumPositionalArguments {", "func (g *Generator) generateMethodArgumentForMakingRequest(obj *tlparser.Method) *jen.Statement {\n	if len(obj.Parameters) >= maximumPositionalArguments {"))
mut("18-hash-appends-to-salt", "C18", "param-untouched", ("telegram/internal/srp/2fa.go", "	return calcSHA256(salt, data, salt)\n", "	return calcSHA256(append(salt, data...), salt)\n"))
mut("18N-hash-concatenates-aside", "C18", None, ("telegram/internal/srp/2fa.go", "	return calcSHA256(salt, data, salt)\n", "	joined := make([]byte, 0, 2*len(salt)+len(data))\n	joined = append(append(append(joined, salt...), data...), salt...)\n	return calcSHA256(joined)\n"))
mut("19-exponent-kept-in-sync-map", "C19", "global-write", ("internal/math/math.go", "func MakeGAB(g int32, g_a, dh_prime *big.Int) (b, g_b, g_ab *big.Int) {\n", "var seedExponents sync.Map\n\nfunc MakeGAB(g int32, g_a, dh_prime *big.Int) (b, g_b, g_ab *big.Int) {\n	defer func() { seedExponents.Store(dh_prime.String(), b) }()\n"), ("internal/math/math.go", "	\"time\"\n", "	\"sync\"\n	\"time\"\n"))
mut("20-domain-unescaped-first", "C20", "the-path-variable-itself", ("telegram/deeplinks/resolver.go", "				Domain: strings.ToLower(username),", "				Domain: strings.ToLower(strings.TrimSuffix(username, \".\")),"))
mut("20N-domain-lowered-via-local", "C20", None, ("telegram/deeplinks/resolver.go", "			return &ResolveParameters{\n				Domain: strings.ToLower(username),", "			lowered := strings.ToLower(username)\n			return &ResolveParameters{\n				Domain: lowered,"))

MSG = "internal/mtproto/messages/messages.go"
mut("03-packet-built-in-the-body-buffer", "C03", "param-untouched", (MSG, "func serializePacket(client MessageInformator, msg []byte, messageID int64, requireToAck bool) []byte {\n	buf := bytes.NewBuffer(nil)\n", "func serializePacket(client MessageInformator, msg []byte, messageID int64, requireToAck bool) []byte {\n	buf := bytes.NewBuffer(msg[len(msg):])\n"))
mut("08-error-code-frame-cut", "C08", "frame:read-verbatim", ("internal/transport/transport.go", "		msg, err = messages.DeserializeUnencrypted(data)\n", "		msg, err = messages.DeserializeUnencrypted(data[:len(data)&^3])\n"))
mut("08-writemsg-pads-frame", "C08", "frame:written-verbatim", ("internal/transport/transport.go", "	err := t.mode.WriteMsg(data)\n", "	for len(data)%16 != 0 {\n		data = append(data, 0)\n	}\n	err := t.mode.WriteMsg(data)\n"))
mut("09-body-trimmed-of-padding", "C09", "body:Encrypted.Msg", ("network.go", "		data = &messages.Encrypted{\n			Msg:         msg,", "		data = &messages.Encrypted{\n			Msg:         bytes.TrimRight(msg, \"\\x00\"),"), ("network.go", "import (\n", "import (\n	\"bytes\"\n"))
mut("09-decoder-given-a-prefix", "C09", "decoded:the-message-body", ("mtproto.go", "		data, err = tl.DecodeUnknownObject(msg.GetMsg())\n	}\n	if err != nil {\n		return errors.Wrap(err, \"unmarshaling response\")", "		body := msg.GetMsg()\n		data, err = tl.DecodeUnknownObject(body[:len(body)&^3])\n	}\n	if err != nil {\n		return errors.Wrap(err, \"unmarshaling response\")"))
mut("01-decode-reverses-input", "C01", "param-untouched", ("internal/encoding/tl/decoder.go", "func DecodeUnknownObject(data []byte, expectNextTypes ...reflect.Type) (Object, error) {\n", "func DecodeUnknownObject(data []byte, expectNextTypes ...reflect.Type) (Object, error) {\n	if len(data) >= WordLen && data[0] == 0 && data[1] == 0 && data[2] == 0 {\n		data[0], data[3] = data[3], data[0] // big-endian id from an old server build\n	}\n"))

# --- tenth round ----------------------------------------------------------------------------------------
AES = "internal/aes_ige/aes.go"
mut("05-tempkeys-result-from-package-buffer", "C05", "result-owned", (AES, "func encryptMessageWithTempKeys(msg []byte, nonceSecond, nonceServer *big.Int) []byte {\n	key, iv := generateTempKeys(nonceSecond, nonceServer)\n\n	encodedWithHash := make([]byte, len(msg))\n", "var seedOut []byte\n\nfunc encryptMessageWithTempKeys(msg []byte, nonceSecond, nonceServer *big.Int) []byte {\n	key, iv := generateTempKeys(nonceSecond, nonceServer)\n\n	if cap(seedOut) < len(msg) {\n		seedOut = make([]byte, len(msg))\n	}\n	encodedWithHash := seedOut[:len(msg)]\n"))
mut("06-server-nonce-echoed-reparsed", "C06", "echo:PQInnerData.ServerNonce", (H, "		ServerNonce: nonceServer,\n		NewNonce:    nonceSecond,", "		ServerNonce: &tl.Int128{Int: big.NewInt(0).SetBytes(nonceServer.Bytes())},\n		NewNonce:    nonceSecond,"))
mut("07-public-key-parsed-once", "C07", "global-write", ("internal/math/math.go", "func DoRSAencrypt(block []byte, key *rsa.PublicKey) []byte {\n", "var seedLastKey *rsa.PublicKey\n\nfunc DoRSAencrypt(block []byte, key *rsa.PublicKey) []byte {\n	if seedLastKey == nil {\n		seedLastKey = key\n	}\n	key = seedLastKey\n"))
mut("08-linger-one-second", "C08", "linger:", ("internal/transport/conn_tcp.go", "	return &tcpConn{\n", "	_ = conn.SetLinger(1)\n\n	return &tcpConn{\n"))
mut("08N-linger-default-explicit", "C08", None, ("internal/transport/conn_tcp.go", "	return &tcpConn{\n", "	_ = conn.SetLinger(-1)\n\n	return &tcpConn{\n"))
mut("11-lock-kept-on-early-return", "C11", "lock-released", ("mtproto.go", "		m.mutex.Lock()\n		badMsgID := int(message.BadMsgID)\n", "		m.mutex.Lock()\n		badMsgID := int(message.BadMsgID)\n		if badMsgID == 0 {\n			return nil\n		}\n"))
mut("16-lock-kept-on-early-return", "C16", "lock-released", ("mtproto.go", "		m.mutex.Lock()\n		badMsgID := int(message.BadMsgID)\n", "		m.mutex.Lock()\n		badMsgID := int(message.BadMsgID)\n		if badMsgID == 0 {\n			return nil\n		}\n"))
mut("16N-lock-released-by-defer-in-closure", "C16", None, ("mtproto.go", "		m.mutex.Lock()\n		badMsgID := int(message.BadMsgID)\n		if v, ok := m.responseChannels.Get(badMsgID); ok {\n			m.responseChannels.Delete(badMsgID)\n			m.expectedTypes.Delete(badMsgID)\n			v <- &errorSessionConfigsChanged{}\n		}\n		m.mutex.Unlock()\n", "		func() {\n			m.mutex.Lock()\n			defer m.mutex.Unlock()\n			badMsgID := int(message.BadMsgID)\n			if v, ok := m.responseChannels.Get(badMsgID); ok {\n				m.responseChannels.Delete(badMsgID)\n				m.expectedTypes.Delete(badMsgID)\n				v <- &errorSessionConfigsChanged{}\n			}\n		}()\n"))
mut("14-enum-decided-by-first-constructor", "C14", "enum:", ("internal/cmd/tlgen/gen/schema.go", "	for _, obj := range in {\n		if len(obj.Parameters) > 0 {\n			return false\n		}\n	}\n\n	return true\n", "	for _, obj := range in {\n		if len(obj.Parameters) > 0 {\n			return false\n		}\n		break\n	}\n\n	return true\n"))
mut("14N-enum-flag-variable", "C14", None, ("internal/cmd/tlgen/gen/schema.go", "	for _, obj := range in {\n		if len(obj.Parameters) > 0 {\n			return false\n		}\n	}\n\n	return true\n", "	isEnum := true\n	for _, obj := range in {\n		if len(obj.Parameters) > 0 {\n			isEnum = false\n		}\n	}\n\n	return isEnum\n"))
mut("17-code-made-positive", "C17", "the-servers-code-itself", ("errors.go", "		Code:           int(r.ErrorCode),", "		Code:           int(r.ErrorCode & 0x7fffffff),"))
mut("18-wrapper-ignores-error", "C18", "error-kept", ("telegram/srp.go", "	res, err := srp.GetInputCheckPassword(password, accountPassword.SRPB, mp)\n	if err != nil {\n		return nil, errors.Wrap(err, \"processing password\")\n	}\n", "	res, err := srp.GetInputCheckPassword(password, accountPassword.SRPB, mp)\n	if err != nil && res != nil {\n		return nil, errors.Wrap(err, \"processing password\")\n	}\n"))
mut("12-store-error-swallowed", "C12", "error-kept", ("mtproto_utils.go", "	return m.tokensStorage.Store(&session.Session{\n		Key:      m.authKey,\n		Hash:     m.authKeyHash,\n		Salt:     m.serverSalt,\n		Hostname: m.addr,\n	})\n", "	if err := m.tokensStorage.Store(&session.Session{\n		Key:      m.authKey,\n		Hash:     m.authKeyHash,\n		Salt:     m.serverSalt,\n		Hostname: m.addr,\n	}); err != nil {\n		m.warnError(err)\n	}\n	return nil\n"))
mut("19-new-nonce-mixed-with-clock", "C19", "source:RandomInt256@", (H, "	nonceSecond := tl.RandomInt256()\n", "	nonceSecond := tl.RandomInt256()\n	nonceSecond.Xor(nonceSecond.Int, big.NewInt(time.Now().UnixNano()))\n"), (H, "import (\n", "import (\n	\"time\"\n"))
mut("01-wrapper-flag-bit-moved", "C01", "presence:api.initConnection", ("telegram/methods_special.go", "	Params         JsonValue         `tl:\"flag:1\"`", "	Params         JsonValue         `tl:\"flag:2\"`"))

# --- eleventh round -------------------------------------------------------------------------------------
TR = "internal/transport/transport.go"
mut("04-route-by-session-encrypted-flag", "C04", "route:by-the-packet", (TR, "	if isPacketEncrypted(data) {\n", "	if t.m.GetSessionID() != 0 && isPacketEncrypted(data) {\n"))
mut("04N-route-test-hoisted", "C04", None, (TR, "	var msg messages.Common\n	if isPacketEncrypted(data) {\n", "	var msg messages.Common\n	sealed := isPacketEncrypted(data)\n	if sealed {\n"))
mut("01-bit-set-only-for-long-slices", "C01", "bit-iff-not-zero", (ENC, "		if !v.Field(i).IsZero() {\n			flag |= 1 << info.index\n		}\n", "		if f := v.Field(i); !f.IsZero() && !(f.Kind() == reflect.Map && f.Len() == 0) {\n			flag |= 1 << info.index\n		}\n"))
mut("01-putstring-trims-nul", "C01", "bytes-as-given", (CW, "	e.PutMessage([]byte(msg))\n", "	e.PutMessage(bytes.TrimRight([]byte(msg), \"\\x00\"))\n"), (CW, "	\"math\"\n", "	\"bytes\"\n	\"math\"\n"))
mut("03-reader-parses-a-copy-cut-to-blocks", "C03", "reader:parses-the-cipher-output", (MSG, "	buf = bytes.NewBuffer(decrypted)\n", "	buf = bytes.NewBuffer(decrypted[:len(decrypted)&^15])\n"))
mut("06-generator-seven-forgotten", "C06", "generator:g=7", (H, "	// this apparently is just part of diffie hellman, so just leave it as it is, hope that it will just work\n", "	if dhi.G < 2 || dhi.G > 6 {\n		return errors.New(\"handshake: bad generator\")\n	}\n	// this apparently is just part of diffie hellman, so just leave it as it is, hope that it will just work\n"))
mut("06N-generator-range-checked", "C06", None, (H, "	// this apparently is just part of diffie hellman, so just leave it as it is, hope that it will just work\n", "	if dhi.G < 2 || dhi.G > 7 {\n		return errors.New(\"handshake: bad generator\")\n	}\n	// this apparently is just part of diffie hellman, so just leave it as it is, hope that it will just work\n"))
mut("09-handlers-called-in-goroutines", "C09", "loop-variable-not-shared", ("mtproto.go", "		for _, f := range m.serverRequestHandlers {\n			processed = f(message)\n			if processed {\n				break\n			}\n		}\n", "		for _, f := range m.serverRequestHandlers {\n			go func() { f(message) }()\n			processed = true\n		}\n"))
mut("09N-goroutine-gets-loop-value-as-argument", "C09", None, ("mtproto.go", "		for _, f := range m.serverRequestHandlers {\n			processed = f(message)\n			if processed {\n				break\n			}\n		}\n", "		for _, f := range m.serverRequestHandlers {\n			go func(h customHandlerFunc) { h(message) }(f)\n			processed = true\n		}\n"))
mut("05-cipher-keeps-callers-iv", "C05", "param-untouched", ("internal/aes_ige/ige_cipher.go", "func NewCipher(key, iv []byte) (*Cipher, error) {\n", "var seedLastIV []byte\n\nfunc NewCipher(key, iv []byte) (*Cipher, error) {\n	seedLastIV = iv\n"))

mut("11-rotation-forgets-by-computed-key", "C11", "forget:the-entry-looked-up", ("mtproto.go", "			m.responseChannels.Delete(badMsgID)\n			m.expectedTypes.Delete(badMsgID)\n			v <- &errorSessionConfigsChanged{}\n", "			m.responseChannels.Delete(badMsgID)\n			m.expectedTypes.Delete(badMsgID)\n			m.responseChannels.Delete(badMsgID - 4)\n			v <- &errorSessionConfigsChanged{}\n"))
mut("14-bitflag-option-for-every-optional-bool", "C14", "bitflag-option-iff-true", ("internal/cmd/tlgen/gen/tl_gen_structs.go", "	if param.Type == \"true\" {\n		tag += \",encoded_in_bitflags\"\n	}\n", "	if param.Type == \"true\" || param.Type == \"Bool\" && param.IsOptional {\n		tag += \",encoded_in_bitflags\"\n	}\n"))
mut("19-new-nonce-tagged-with-session-id", "C19", "source:RandomInt256@", (H, "	nonceSecond := tl.RandomInt256()\n", "	nonceSecond := tl.RandomInt256()\n	nonceSecond.SetBit(nonceSecond.Int, 0, uint(m.sessionId&1))\n"))
mut("20-hosts-matched-by-suffix", "C20", "membership-is-byte-equality", ("telegram/deeplinks/utils.go", "		if l[i] == s {\n", "		if l[i] == s || strings.HasSuffix(s, \".\"+l[i]) {\n"))
mut("20N-hosts-compared-in-a-switch", "C20", None, ("telegram/deeplinks/utils.go", "		if l[i] == s {\n			return true\n		}\n", "		switch l[i] {\n		case s:\n			return true\n		}\n"))

# --- twelfth round --------------------------------------------------------------------------------------
mut("01-interface-fit-uses-elem", "C01", "reflect:", (DEC, "		if val == nil || !reflect.TypeOf(val).ConvertibleTo(value.Type()) {", "		if val == nil || reflect.ValueOf(val).Pointer() == 0 || !reflect.TypeOf(val).ConvertibleTo(value.Type()) {"))
mut("02-int128-padded-from-shared-array", "C02", "global-write", ("internal/encoding/tl/common_types.go", "func (i *Int128) MarshalTL(e *Encoder) error {\n", "var seedPad [Int128Len]byte\n\nfunc (i *Int128) MarshalTL(e *Encoder) error {\n	copy(seedPad[:], i.Bytes())\n"))
mut("05-tempkeys-digest-over-padded", "C05", "digest-covers-the-payload", (AES, "	hash := dry.Sha1Byte(msg)\n\n	// добавляем остаток рандомных байт в сообщение, что бы суммарно оно делилось на 16\n	totalLen := len(hash) + len(msg)\n	overflowedLen := totalLen % 16\n	needToAdd := (16 - overflowedLen) % 16\n\n	msg = bytes.Join([][]byte{hash, msg, dry.RandomBytes(needToAdd)}, []byte{})\n", "	totalLen := 20 + len(msg)\n	overflowedLen := totalLen % 16\n	needToAdd := (16 - overflowedLen) % 16\n\n	padded := append(append([]byte{}, msg...), dry.RandomBytes(needToAdd)...)\n	msg = bytes.Join([][]byte{dry.Sha1Byte(padded), padded}, []byte{})\n"))
mut("06-splitpq-shared-generator", "C06", "global-write", ("internal/math/math.go", "	rnd := rand.New(rand.NewSource(time.Now().UnixNano())) //nolint: gosec смысла нет\n", "	if seedRnd == nil {\n		seedRnd = rand.New(rand.NewSource(time.Now().UnixNano())) //nolint: gosec смысла нет\n	}\n	rnd := seedRnd\n"), ("internal/math/math.go", "func SplitPQ(pq *big.Int) (p1, p2 *big.Int) {\n", "var seedRnd *rand.Rand\n\nfunc SplitPQ(pq *big.Int) (p1, p2 *big.Int) {\n"))
mut("07-reader-drops-unknown-service-replies", "C07", "dispatch:read-message-is-handed-on", ("mtproto.go", "		m.serviceChannel <- obj\n		return nil\n", "		if _, isFail := obj.(*objects.DHGenFail); !isFail {\n			m.serviceChannel <- obj\n		}\n		return nil\n"))
mut("09-flood-wait-handled-by-sleeping", "C09", "handled-only-by-reconnect", ("mtproto.go", "	default:\n		return e\n	}\n}", "	case \"FLOOD_WAIT_X\":\n		time.Sleep(time.Second)\n		return nil\n\n	default:\n		return e\n	}\n}"))
mut("17-flood-wait-handled-by-sleeping", "C17", "handled-only-by-reconnect", ("mtproto.go", "	default:\n		return e\n	}\n}", "	case \"FLOOD_WAIT_X\":\n		time.Sleep(time.Second)\n		return nil\n\n	default:\n		return e\n	}\n}"))
mut("10-container-header-reused", "C10", "container-item:fresh-per-iteration", ("internal/mtproto/objects/types.go", "	for i := 0; i < count; i++ {\n		msg := new(messages.Encrypted)\n", "	msg := new(messages.Encrypted)\n	for i := 0; i < count; i++ {\n"))

mut("12-path-cleaned-at-construction", "C12", "path:as-given", ("internal/session/file.go", "	return &genericFileSessionLoader{path: path}\n", "	return &genericFileSessionLoader{path: filepath.Clean(path)}\n"))
mut("13-wrapper-returns-constant-true", "C13", "answer:AccountResetWebAuthorization", ("telegram/methods_gen.go", "func (c *Client) AccountResetWebAuthorization(hash int64) (bool, error) {\n	responseData, err := c.MakeRequest(&AccountResetWebAuthorizationParams{Hash: hash})\n	if err != nil {\n		return false, errors.Wrap(err, \"sending AccountResetWebAuthorization\")\n	}\n\n	resp, ok := responseData.(bool)\n	if !ok {\n		panic(\"got invalid response type: \" + reflect.TypeOf(responseData).String())\n	}\n	return resp, nil\n", "func (c *Client) AccountResetWebAuthorization(hash int64) (bool, error) {\n	responseData, err := c.MakeRequest(&AccountResetWebAuthorizationParams{Hash: hash})\n	if err != nil {\n		return false, errors.Wrap(err, \"sending AccountResetWebAuthorization\")\n	}\n\n	_, ok := responseData.(bool)\n	if !ok {\n		panic(\"got invalid response type: \" + reflect.TypeOf(responseData).String())\n	}\n	return true, nil\n"))
mut("14-flagindex-only-above-bit-zero", "C14", "flagindex:emitted-iff-conditional", ("internal/cmd/tlgen/gen/tl_gen_structs.go", "		if param.IsOptional {\n			containsOptionalParameters = true\n		}\n", "		if param.IsOptional && param.BitToTrigger > 0 {\n			containsOptionalParameters = true\n		}\n"))
mut("15-depth-counted-for-pointers-only", "C15", "recursion:gated", (DEC, "	d.depth++\n	defer func() { d.depth-- }()\n	if d.depth > maxNesting {\n		d.err = fmt.Errorf(\"values are nested deeper than %v levels\", maxNesting)\n		return\n	}\n", "	if value.Kind() != reflect.Interface {\n		d.depth++\n		defer func() { d.depth-- }()\n		if d.depth > maxNesting {\n			d.err = fmt.Errorf(\"values are nested deeper than %v levels\", maxNesting)\n			return\n		}\n	}\n"))
mut("16-table-delete-under-rlock", "C16", "locks:SyncIntObjectChan.Delete", ("internal/utils/sync_stuff.go", "func (s *SyncIntObjectChan) Delete(key int) bool {\n	s.mutex.Lock()\n", "func (s *SyncIntObjectChan) Delete(key int) bool {\n	s.mutex.RLock()\n"), ("internal/utils/sync_stuff.go", "func (s *SyncIntObjectChan) Delete(key int) bool {\n	s.mutex.RLock()\n	_, ok := s.m[key]\n	delete(s.m, key)\n	s.mutex.Unlock()\n", "func (s *SyncIntObjectChan) Delete(key int) bool {\n	s.mutex.RLock()\n	_, ok := s.m[key]\n	delete(s.m, key)\n	s.mutex.RUnlock()\n"))
mut("17-migrate-falls-back-to-dc-2", "C17", "lookup:the-number-the-server-named", ("mtproto.go", "		newIP, found := m.dclist[dcID]\n", "		if _, known := m.dclist[dcID]; !known && dcID > 5 {\n			dcID = 2\n		}\n		newIP, found := m.dclist[dcID]\n"))
mut("18-group-check-refuses-two", "C18", "generator:g=2", ("telegram/internal/srp/2fa.go", "DhHandshake.cpp\n\n	return false\n}\n", "DhHandshake.cpp\n\n	if gInt <= 2 {\n		return true\n	}\n\n	return false\n}\n"))

# --- thirteenth round -----------------------------------------------------------------------------------
mut("08-only-small-codes-are-codes", "C08", "error-code:every-four-byte-frame", (TR, "	if len(data) == tl.WordLen {\n		code := int(int32(binary.LittleEndian.Uint32(data))) // transport error codes are signed, e.g. -404\n		return nil, ErrCode(code)\n	}\n", "	if len(data) == tl.WordLen {\n		code := int(int32(binary.LittleEndian.Uint32(data))) // transport error codes are signed, e.g. -404\n		if code > -1000 {\n			return nil, ErrCode(code)\n		}\n	}\n"))
mut("02-pointer-allocated-before-presence-test", "C02", "decoder:absent-field-untouched", (DEC, "		field := value.Field(fieldIndex)\n", "		field := value.Field(fieldIndex)\n		if field.Kind() == reflect.Ptr && field.IsNil() {\n			field.Set(reflect.New(field.Type().Elem()))\n		}\n"))
mut("09-rotation-arm-leaves-when-salt-known", "C09", "notify:every-path", ("mtproto.go", "	case *objects.BadServerSalt:\n		m.serverSalt = message.NewSalt\n", "	case *objects.BadServerSalt:\n		if message.NewSalt == m.serverSalt {\n			break\n		}\n		m.serverSalt = message.NewSalt\n"))
mut("09N-rotation-arm-saves-only-when-new", "C09", None, ("mtproto.go", "		m.serverSalt = message.NewSalt\n		err := m.SaveSession()\n		check(err)\n\n		// the server rejected exactly one message", "		if message.NewSalt != m.serverSalt {\n			m.serverSalt = message.NewSalt\n			err := m.SaveSession()\n			check(err)\n		}\n\n		// the server rejected exactly one message"))

mut("12-newclient-splits-the-session-path", "C12", "bare-name:", ("telegram/common.go", "	if !dry.PathIsWritable(c.SessionFile) {\n", "	if d, _ := filepath.Split(c.SessionFile); d != \"\" && !dry.FileIsDir(d) {\n		return nil, errs.NotFound(\"directory\", d)\n	}\n	if !dry.PathIsWritable(c.SessionFile) {\n"), ("telegram/common.go", "import (\n	\"net\"\n", "import (\n	\"net\"\n	\"path/filepath\"\n"))
mut("14-zero-literal-for-enum-results", "C14", "result-representation:knows-list-ness", ("internal/cmd/tlgen/gen/tl_gen_methods.go", "	responses := []jen.Code{resp, jen.Error()}\n", "	responses := []jen.Code{resp, jen.Error()}\n	if _, isEnum := g.schema.Enums[obj.Response.Type]; isEnum {\n		responses = []jen.Code{resp, jen.Error()}\n	}\n"))
mut("18-no-password-answer-for-short-b", "C18", "no-password:only-for-the-empty-password", ("telegram/internal/srp/2fa.go", "	if password == \"\" {\n		return nil, nil\n	}\n", "	if password == \"\" || len(srpB) < 8 {\n		return nil, nil\n	}\n"))
mut("19-reader-replaced-at-construction", "C19", "source-replaced", ("internal/utils/utils.go", "func GenerateSessionID() int64 {\n", "func GenerateSessionID() int64 {\n	crand.Reader = bufio.NewReader(crand.Reader)\n"), ("internal/utils/utils.go", "import (\n", "import (\n	\"bufio\"\n	crand \"crypto/rand\"\n"))

# --- fourteenth round -----------------------------------------------------------------------------------
mut("05-register-points-at-callers-iv", "C05", "input-untouched:doAES256IGEencrypt", ("internal/aes_ige/ige_cipher.go", "	copy(c.x, iv[:aes.BlockSize])\n", "	c.x = iv[:aes.BlockSize:aes.BlockSize]\n"))
mut("06-stale-server-time-refused", "C06", "refusal-depends-on-the-clock", (H, "	// this apparently is just part of diffie hellman, so just leave it as it is, hope that it will just work\n", "	if int64(dhi.ServerTime) < time.Now().Unix()-86400 {\n		return errors.New(\"handshake: stale answer\")\n	}\n	// this apparently is just part of diffie hellman, so just leave it as it is, hope that it will just work\n"), (H, "import (\n", "import (\n	\"time\"\n"))
mut("07-wrong-server-nonce-waited-out", "C07", "guard:server_DH_params_ok.server_nonce", (H, "	if nonceServer.Cmp(dhParams.ServerNonce.Int) != 0 {\n		return errors.New(\"handshake: Wrong server_nonce\")\n	}\n", "	for nonceServer.Cmp(dhParams.ServerNonce.Int) != 0 {\n		next, isOk := (<-m.serviceChannel).(*objects.ServerDHParamsOk)\n		if !isOk {\n			return errors.New(\"handshake: Wrong server_nonce\")\n		}\n		dhParams = next\n	}\n"))
mut("08-read-and-write-deadline", "C08", "write-deadline", ("internal/transport/conn_tcp.go", "		err := t.conn.SetReadDeadline(time.Now().Add(t.timeout))\n", "		err := t.conn.SetDeadline(time.Now().Add(t.timeout))\n"))
mut("09-caller-gives-up-after-a-minute", "C09", "wait:plain-receive", ("mtproto.go", "	response := <-resp\n", "	var response tl.Object\n	select {\n	case response = <-resp:\n	case <-time.After(time.Minute):\n		return nil, errors.New(\"no answer\")\n	}\n"))
mut("12-save-only-with-waiter", "C12", "salt:saved-on-every-path", ("mtproto.go", "		m.serverSalt = message.NewSalt\n		err := m.SaveSession()\n		check(err)\n", "		m.serverSalt = message.NewSalt\n		if m.responseChannels.Has(int(message.BadMsgID)) {\n			err := m.SaveSession()\n			check(err)\n		}\n"))
mut("14-markers-toggle-the-section", "C14", "section:set-by-marker", ("internal/cmd/tlgen/tlparser/parser.go", "		if cur.IsNext(\"---types---\") {\n			isFunctions = false\n			continue\n		}\n", "		if cur.IsNext(\"---types---\") {\n			isFunctions = !isFunctions\n			continue\n		}\n"))
mut("16-reader-not-counted", "C16", "counted:add-done-paired", ("mtproto.go", "func (m *MTProto) startReadingResponses(ctx context.Context) {\n	m.routineswg.Add(1)\n", "func (m *MTProto) startReadingResponses(ctx context.Context) {\n"))
mut("02-container-element-hoisted", "C02", "container-item:fresh-per-iteration", ("internal/mtproto/objects/types.go", "	for i := 0; i < count; i++ {\n		msg := new(messages.Encrypted)\n", "	msg := new(messages.Encrypted)\n	for i := 0; i < count; i++ {\n"))

# --- round 15 (letter o) ---------------------------------------------------------------------------------
mut("03-seqno-shifted-on-plain-path", "C03", "seq-no:as-is/plain", ("internal/mtproto/messages/messages.go", "		d.PutInt(client.GetSeqNo())\n", "		d.PutInt(client.GetSeqNo() &^ 1)\n"))
mut("08-write-coalesces-small-writes", "C08", "write:", ("internal/transport/conn_tcp.go", "	return t.conn.Write(b)\n", "	if len(b) == 0 {\n		return 0, nil\n	}\n	return t.conn.Write(b)\n"))
mut("14-one-bit-one-field", "C14", "shared-bits:no-refusal-in-parseDefinition", ("internal/cmd/tlgen/tlparser/parser.go", "		def.Params = append(def.Params, param)", "		for _, prev := range def.Params {\n			if prev.IsOptional && param.IsOptional && prev.BitToTrigger == param.BitToTrigger {\n				return def, fmt.Errorf(\"bit %d used twice\", param.BitToTrigger)\n			}\n		}\n		def.Params = append(def.Params, param)"))
mut("16-receive-loop-asks-for-state", "C16", "receive-loop:requests-not-waited-for", ("mtproto.go", "	case *objects.Pong, *objects.MsgsAck:\n", "	case *objects.MsgsStateReq:\n		if _, err := m.MakeRequest(&objects.MsgsStateInfo{ReqMsgID: int64(msg.GetMsgID()), Info: []byte{4}}); err != nil {\n			return err\n		}\n\n	case *objects.Pong, *objects.MsgsAck:\n"))
mut("19-draw-error-shadowed", "C19", "failed-draw:", ("telegram/internal/srp/2fa.go", "	if _, err := rand.Read(random); err != nil {\n		return nil, errors.Wrap(err, \"reading crypto/rand\")\n	}\n", "	var err error\n	for i := 0; i < 3; i++ {\n		if _, err := rand.Read(random); err == nil {\n			break\n		}\n	}\n	if err != nil {\n		return nil, errors.Wrap(err, \"reading crypto/rand\")\n	}\n"))
mut("19-draw-error-ignored", "C19", "failed-draw:", ("telegram/internal/srp/2fa.go", "	if _, err := rand.Read(random); err != nil {\n		return nil, errors.Wrap(err, \"reading crypto/rand\")\n	}\n", "	_, _ = rand.Read(random)\n"))
mut("06-exchange-skipped-when-key-bytes-present", "C06", "exchange:whenever-not-confirmed", ("mtproto.go", "	if !m.encrypted {\n		err = m.makeAuthKey()", "	if len(m.authKey) == 0 {\n		err = m.makeAuthKey()"))
mut("10-marshal-buffer-pooled", "C10", "marshal:result-owned-by-caller", ("internal/encoding/tl/encoder.go", "	buf := bytes.NewBuffer(nil)\n	encoder := NewEncoder(buf)\n", "	buf := marshalBufs.Get().(*bytes.Buffer)\n	buf.Reset()\n	defer marshalBufs.Put(buf)\n	encoder := NewEncoder(buf)\n"), ("internal/encoding/tl/encoder.go", "func Marshal(v any) ([]byte, error) {\n", "var marshalBufs = sync.Pool{New: func() interface{} { return bytes.NewBuffer(nil) }}\n\nfunc Marshal(v any) ([]byte, error) {\n"), ("internal/encoding/tl/encoder.go", "import (\n", "import (\n	\"sync\"\n"))
mut("09-waiter-channel-from-a-pool", "C09", "fresh-channel:sendPacket/(*sync.Pool)", ("network.go", "	return make(chan tl.Object)\n", "	return respPool.Get().(chan tl.Object)\n"), ("network.go", "func (m *MTProto) getRespChannel() chan tl.Object {\n", "var respPool = sync.Pool{New: func() interface{} { return make(chan tl.Object) }}\n\nfunc (m *MTProto) getRespChannel() chan tl.Object {\n"), ("network.go", "import (\n", "import (\n	\"sync\"\n"))
# negative controls of round 15 / negative round A (behaviour-preserving; must stay silent)
mut("neg-03-seqno-through-a-variable", "C03", None, ("internal/mtproto/messages/messages.go", "	if requireToAck { // не спрашивай, как это работает\n		d.PutInt(client.GetSeqNo() | 1) // почему тут добавляется бит не ебу\n	} else {\n		d.PutInt(client.GetSeqNo())\n	}\n", "	seqNo := client.GetSeqNo()\n	if requireToAck {\n		seqNo |= 1\n	}\n	d.PutInt(seqNo)\n"))
mut("neg-07-nonce-checks-in-a-new-helper", "C07", None, (H, "	if nonceFirst.Cmp(dhParams.Nonce.Int) != 0 {\n		return errors.New(\"handshake: Wrong nonce\")\n	}\n	if nonceServer.Cmp(dhParams.ServerNonce.Int) != 0 {\n		return errors.New(\"handshake: Wrong server_nonce\")\n	}\n", "	if err := sameNonces(nonceFirst, nonceServer, dhParams.Nonce, dhParams.ServerNonce); err != nil {\n		return err\n	}\n"), (H, "func (m *MTProto) makeAuthKey() error { // nolint", "func sameNonces(a, b, gotA, gotB *tl.Int128) error {\n	if a.Cmp(gotA.Int) != 0 {\n		return errors.New(\"handshake: Wrong nonce\")\n	}\n	if b.Cmp(gotB.Int) != 0 {\n		return errors.New(\"handshake: Wrong server_nonce\")\n	}\n	return nil\n}\n\nfunc (m *MTProto) makeAuthKey() error { // nolint"))
mut("neg-19-draw-error-in-else", "C19", None, ("telegram/internal/srp/2fa.go", "	if _, err := rand.Read(random); err != nil {\n		return nil, errors.Wrap(err, \"reading crypto/rand\")\n	}\n\n	return getInputCheckPassword(password, srpB, mp, random)\n", "	_, err := rand.Read(random)\n	if err == nil {\n		return getInputCheckPassword(password, srpB, mp, random)\n	}\n	return nil, errors.Wrap(err, \"reading crypto/rand\")\n"))
mut("neg-04-msgkey-by-the-package-function", "C04", None, ("internal/mtproto/messages/messages.go", "dry.Sha1Byte(trimed)[4:20]", "ige.MessageKey(trimed)"), ("internal/mtproto/messages/messages.go", "\t\"github.com/xelaj/go-dry\"\n", ""))
mut("neg-08-marker-operands-swapped", "C08", None, ("internal/mode/arbiged.go", "if sizeBuf[0] == magicValueSizeMoreThanSingleByte {", "if magicValueSizeMoreThanSingleByte == sizeBuf[0] {"))

json.dump(M, open('/verif/selftest/mutations.json', 'w'), indent=1, ensure_ascii=False)
print(len(M), "mutations")
