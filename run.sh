#!/bin/sh
# usage: ./run.sh <property-id> quick|thorough
# Decides one property on /repo's current working tree by static analysis (see DESIGN.md).
# Exit 0: held on everything analysed (KNOWN-FINDING lines allowed); exit 1: VIOLATION line printed.
set -u
HERE=$(cd "$(dirname "$0")" && pwd)
ID=${1:?property id}
TIER=${2:-${VERIF_TIER:-quick}}
REPO=${VERIF_REPO:-/repo}
export GOFLAGS=-mod=vendor GOPROXY=off GOSUMDB=off GOTOOLCHAIN=local GOWORK=off CGO_ENABLED=0
BIN="$HERE/bin/verif"
need=0
[ -x "$BIN" ] || need=1
if [ $need -eq 0 ] && [ -n "$(find "$HERE/checker" -name '*.go' -not -path '*/vendor/*' -newer "$BIN" 2>/dev/null | head -1)" ]; then need=1; fi
if [ $need -eq 1 ]; then
  mkdir -p "$HERE/bin"
  (cd "$HERE/checker" && go build -o "$BIN.tmp.$$" ./cmd/verif && mv "$BIN.tmp.$$" "$BIN") || { echo "checker build failed" >&2; exit 2; }
fi
exec "$BIN" check -property "$ID" -tier "$TIER" -repo "$REPO" -verif "$HERE"
