#!/usr/bin/env python3
"""Regenerates /verif/MANIFEST.json from the claims table below.  A property is either claimed or listed
under not_applicable with the reason."""
import json
props=[json.loads(l) for l in open('/verif/properties.jsonl')]
T="static analysis: "
CLAIMS={
 "C07":("other","For-all-paths structural fact: in makeAuthKey every entry->effect path (SaveSession / encrypted=true) passes the agree edge of each of 13 server-reply checks, operands identified by SSA origin; decided by cut-edge reachability with boolean-phi folding. A necessary and, modulo the trusted base, sufficient condition for 'aborts and persists nothing'.",
        "Trusts go/ssa, big.Int.Cmp / bytes.Equal semantics and the TL decoder delivering the reply fields; a nested key exchange entered through makeRequest's PHONE_MIGRATE reconnect is analysed as its own run.",
        T+"guard (edge) dominance on go/ssa CFG with SCCP over bool phis, SSA origin tracing, who-may-write over the whole program, panic census of abort paths"),
 "C13":("translation_validation","Two independent readings of every definition (the .tl text via an independent reader + canonical-line CRC-32, and the type-checked Go program) compared definition by definition and method by method, matched by constructor id; all 1195+34 definitions and 343 methods are enumerated on every run.",
        "Trusts go/types and the checker's TL reader; decides the structural statement (ids, fields, flags, registration, method argument positions, result kinds), not the end-to-end call behaviour.",
        T+"translation validation of schema text against the type-checked program (go/packages + go/types + AST)"),
}
NA={}
import importlib.util,os
extra='/verif/tools/claims_extra.py'
if os.path.exists(extra):
    spec=importlib.util.spec_from_file_location('ce',extra); m=importlib.util.module_from_spec(spec); spec.loader.exec_module(m)
    CLAIMS.update(m.CLAIMS); NA.update(getattr(m,'NA',{}))
    for pid, old, new, tech_add, claim_add in getattr(m,'AMEND',[]):
        lvl, claim, trust, tech = CLAIMS[pid]
        if old:
            assert old in claim, (pid, old)
            claim = claim.replace(old, new)
        CLAIMS[pid] = (lvl, claim + claim_add, trust, tech + tech_add)
checks=[]
for p in props:
    i=p['id']
    if i not in CLAIMS: continue
    cat,text,note,tech=CLAIMS[i]
    checks.append({"property_id":i,"quick_cmd":f"./run.sh {i} quick","thorough_cmd":f"./run.sh {i} thorough","evidence_file":f"evidence/{i}.json",
      "replay_cmd_template":f"./run.sh {i} quick   # the replay file {{path}} lists every violated obligation with file:line and the rule text",
      "engine":"verif-static","level_claimed":{"category":cat,"text":text,"design_ref":f"DESIGN.md section 3, {i}"},"level_note":note,"technique":tech})
na=[{"property_id":p['id'],"reason":NA.get(p['id'],"check not built yet in this commit (static rules planned in DESIGN.md section 3); not claimed until its rule set runs clean on the unchanged tree")} for p in props if p['id'] not in CLAIMS]
m={"version":1,
 "setup_cmd":"cd checker && GOFLAGS=-mod=vendor GOPROXY=off GOSUMDB=off GOTOOLCHAIN=local GOWORK=off CGO_ENABLED=0 go build -o ../bin/verif ./cmd/verif",
 "hooks":{"guard":"verif","enable":"none: static analysis reads the source, no hooks are compiled in","baseline_off_cmd":"for m in . internal/cmd/tlgen telegram/deeplinks; do (cd /repo/$m && GOFLAGS=-mod=mod GOPROXY=off GOSUMDB=off go test -vet=off -count=1 ./...) || exit 1; done","source_commits":[],"add_only":True},
 "engines":[{"name":"verif-static","path":"checker/","serves_properties":sorted(CLAIMS),"kind_free_text":"repository-specific static analyser over go/packages, go/types, go/ssa and the VTA call graph (x/tools v0.29.0, vendored)"}],
 "checks":checks,"not_applicable":na,
 "notes":"See DESIGN.md. Every check is ./run.sh <ID> <tier>; it rebuilds the analyser if needed and analyses /repo's working tree. Known findings: known_findings.json; reproductions: repro/."}
json.dump(m,open('/verif/MANIFEST.json','w'),indent=1)
print(len(checks),'claimed',len(na),'n/a')
