T="static analysis: "
CLAIMS={
 "C19":("other","All-paths origin fact: the interprocedural backward slice (repository + go-dry, buffer/big.Int mutators included) of each of the four secrets (nonce, new_nonce, DH exponent, SRP ephemeral) contains only crypto/rand acquisitions and at least one; use sites in makeAuthKey take their values from the generators; reseeding of a depended-on source is reported. This is the property itself (it quantifies over code paths), decided for every path of the slice.",
        "Trusts go/ssa, the slicer's library summaries (which std calls write their arguments) and that crypto/rand is the OS CSPRNG; unresolved dynamic calls inside a slice would show up as missing origins and fail the 'at least one crypto/rand' obligation.",
        T+"interprocedural def-use slice on go/ssa with mutator summaries; call-graph reachability for reseed sites"),
}
NA={}
