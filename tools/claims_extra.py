T="static analysis: "
CLAIMS={
 "C19":("other","All-paths origin fact: the interprocedural backward slice (repository + go-dry, buffer/big.Int mutators included) of each of the four secrets (nonce, new_nonce, DH exponent, SRP ephemeral) contains only crypto/rand acquisitions and at least one; use sites in makeAuthKey take their values from the generators; reseeding of a depended-on source is reported. This is the property itself (it quantifies over code paths), decided for every path of the slice.",
        "Trusts go/ssa, the slicer's library summaries (which std calls write their arguments) and that crypto/rand is the OS CSPRNG; unresolved dynamic calls inside a slice would show up as missing origins and fail the 'at least one crypto/rand' obligation.",
        T+"interprocedural def-use slice on go/ssa with mutator summaries; call-graph reachability for reseed sites"),
}
NA={}
CLAIMS.update({
 "C05":("other","Structural necessary conditions of the IGE wrappers, each breaking the stated behaviour when broken: length validation edge-dominates both block loops (thresholds = block size); both padding amounts tabulated over every residue of the length lie in 0..15 and complete the block; the strip loop's recovered induction variable covers cut points len-0..len-15 and never goes negative; the 20-byte prefix split is length-guarded; nonces enter the temp-key derivation at fixed width. The cipher equation itself is not decided.",
        "Trusts go/ssa and the small integer-expression evaluator (constants, + - * / % & | shifts); the loop rule assumes the induction variable is affine in len(decoded message); the IGE chaining equation and buffer aliasing are NOT decided (pinned only by the repository's two test vectors).",
        T+"guard dominance on the SSA CFG, abstract evaluation of padding expressions over residue classes, counted-loop recovery from the induction phi, forward def-use width rule"),
 "C06":("other","Structural necessary condition for value-independence of the key exchange: no minimal-form big.Int.Bytes() result reaches a fixed-width protocol position (all Bytes() call sites in handshake, temp keys, RSA, fingerprint code are followed forward interprocedurally and every use classified; the padding helper's body and the width constant per operand are verified), plus success-exit effects and the fingerprint layout. Factorisation/RSA/DH arithmetic and agreement with a real server are not decided.",
        "Trusts go/ssa, the sink tables (width-insensitive: TL bytes fields, PutMessage, SetBytes, hex dump) and the protocol-width table (6 rows).",
        T+"forward def-use flow from every (*big.Int).Bytes() call with use classification; dominance of success effects; SSA origin tracing"),
 "C18":("other","Structural necessary conditions of the SRP answer: every big-integer→bytes conversion that reaches a hash input or the returned A is left-padded to 256 bytes (helper body verified), B is padded before hashing, validation edge-dominates all arithmetic with the four range tests on the accepting exit, empty password short-circuits to the 'no password' answer, t+=p exactly on t<0, ephemeral from crypto/rand. That M1 verifies for the right password only is numerical and not decided.",
        "Trusts go/ssa, math/big and the hash primitives; decides which values are hashed and in what width, not the SRP equations.",
        T+"forward width rule, guard dominance with relation normalisation of big.Int.Cmp idioms, variadic-argument origin tracing"),
})
CLAIMS.update({
 "C03":("other","Sibling cross-check of both directions of the envelope against the MTProto 1.0 layout table: ordered Put*/Pop* sequences (width + origin/destination label) on every success path of the five (de)serialisers, ack bit on exactly the requireToAck arm, same plaintext/key for msg_key, auth_key_id and ciphertext, digest windows, direction selector of the key schedule, padding over all residues, 8-byte discrimination. The byte windows inside generateAESIGE and the cipher are not decided.",
        "Trusts go/ssa and the transcribed layout table; path enumeration is exhaustive for these loop-free functions.",
        T+"codec-sequence extraction over all acyclic CFG paths, SSA origin/destination labelling, comparison with a spec table and between siblings"),
 "C04":("other","Acceptance is decided as edge dominance: the value-returning exit of DeserializeEncrypted is dominated by the key-id and msg_key comparisons (operands by origin; digest over exactly decrypted[0:32+len]), reachable only for msg_id residues {1,3}; every packet-sized allocation/slice is bounded wherever reachable on a boundary grid of (len(data), declared length) with int32 wrap-around; plain packets and transport.ReadMsg likewise. 'Never panics' is decided for these sized operations only, not for every instruction.",
        "Trusts go/ssa, SHA-1 collision resistance, and that affine guards have their extremes on the grid (11 packet lengths x 14 declared lengths incl. -2^31, -1, len±1, 2^31-1).",
        T+"guard dominance, abstract evaluation of the control skeleton on a boundary grid (forced branches), residue-class evaluation of parity tests"),
})
