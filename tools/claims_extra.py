T="static analysis: "
CLAIMS={
 "C19":("other","All-paths origin fact: the interprocedural backward slice (repository + go-dry, buffer/big.Int mutators included) of each of the four secrets (nonce, new_nonce, DH exponent, SRP ephemeral) contains only crypto/rand acquisitions and at least one; use sites in makeAuthKey take their values from the generators; reseeding of a depended-on source is reported. This is the property itself (it quantifies over code paths), decided for every path of the slice.",
        "Trusts go/ssa, the slicer's library summaries (which std calls write their arguments) and that crypto/rand is the OS CSPRNG; unresolved dynamic calls inside a slice would show up as missing origins and fail the 'at least one crypto/rand' obligation.",
        T+"interprocedural def-use slice on go/ssa with mutator summaries; call-graph reachability for reseed sites"),
}
NA={}
CLAIMS.update({
 "C05":("other","Structural necessary conditions of the IGE wrappers, each breaking the stated behaviour when broken: length validation edge-dominates both block loops (thresholds = block size); both padding amounts tabulated over every residue of the length lie in 0..15 and complete the block; the strip loop's recovered induction variable covers cut points len-0..len-15 and never goes negative; the 20-byte prefix split is length-guarded; nonces enter the temp-key derivation at fixed width. The cipher equation itself is not decided.",
        "Trusts go/ssa and the small integer-expression evaluator (constants, + - * / % & | shifts); the loop rule assumes the induction variable is affine in len(decoded message); the IGE chaining equation and buffer aliasing are NOT decided (pinned only by the repository's two test vectors).",
        T+"guard dominance on the SSA CFG, abstract evaluation of padding expressions over residue classes, counted-loop recovery from the induction phi, forward def-use width rule"),
 "C06":("other","Structural necessary condition for value-independence of the key exchange: no minimal-form big.Int.Bytes() result reaches a fixed-width protocol position (all Bytes() call sites in handshake, temp keys, RSA, fingerprint code are followed forward interprocedurally and every use classified; the padding helper's body and the width constant per operand are verified), plus success-exit effects and the fingerprint layout. Factorisation/RSA/DH arithmetic and agreement with a real server are not decided.",
        "Trusts go/ssa, the sink tables (width-insensitive: TL bytes fields, PutMessage, SetBytes, hex dump) and the protocol-width table (6 rows).",
        T+"forward def-use flow from every (*big.Int).Bytes() call with use classification; dominance of success effects; SSA origin tracing"),
 "C18":("other","Structural necessary conditions of the SRP answer: every big-integer→bytes conversion that reaches a hash input or the returned A is left-padded to 256 bytes (helper body verified), B is padded before hashing, validation edge-dominates all arithmetic with the four range tests on the accepting exit, empty password short-circuits to the 'no password' answer, t+=p exactly on t<0, ephemeral from crypto/rand. That M1 verifies for the right password only is numerical and not decided.",
        "Trusts go/ssa, math/big and the hash primitives; decides which values are hashed and in what width, not the SRP equations.",
        T+"forward width rule, guard dominance with relation normalisation of big.Int.Cmp idioms, variadic-argument origin tracing"),
})
CLAIMS.update({
 "C03":("other","Sibling cross-check of both directions of the envelope against the MTProto 1.0 layout table: ordered Put*/Pop* sequences (width + origin/destination label) on every success path of the five (de)serialisers, ack bit on exactly the requireToAck arm, same plaintext/key for msg_key, auth_key_id and ciphertext, digest windows, direction selector of the key schedule, padding over all residues, 8-byte discrimination. The byte windows inside generateAESIGE and the cipher are not decided.",
        "Trusts go/ssa and the transcribed layout table; path enumeration is exhaustive for these loop-free functions.",
        T+"codec-sequence extraction over all acyclic CFG paths, SSA origin/destination labelling, comparison with a spec table and between siblings"),
 "C04":("other","Acceptance is decided as edge dominance: the value-returning exit of DeserializeEncrypted is dominated by the key-id and msg_key comparisons (operands by origin; digest over exactly decrypted[0:32+len]), reachable only for msg_id residues {1,3}; every packet-sized allocation/slice is bounded wherever reachable on a boundary grid of (len(data), declared length) with int32 wrap-around; plain packets and transport.ReadMsg likewise. 'Never panics' is decided for these sized operations only, not for every instruction.",
        "Trusts go/ssa, SHA-1 collision resistance, and that affine guards have their extremes on the grid (11 packet lengths x 14 declared lengths incl. -2^31, -1, len±1, 2^31-1).",
        T+"guard dominance, abstract evaluation of the control skeleton on a boundary grid (forced branches), residue-class evaluation of parity tests"),
})
CLAIMS.update({
 "C08":("other","The schedule-independence of framing is reduced to its mechanism and decided structurally: every read the mode readers issue is a full read (tcpConn.Read → go-dry CancelableReader → io.ReadFull on the connection, nothing reads the raw connection, the transport hands that tcpConn to the mode); writer/reader siblings of both framings agree with the format (header bytes evaluated from the SSA stores for 10 lengths around the 127-word switch, little-endian 3/4-byte lengths, word size), announcements shared; error frame converted through int32; with err fixed to io.EOF / context.Canceled every reachable exit of the four layers returns err itself.",
        "Trusts go/ssa, io.ReadFull, and the go-dry sources found in the module cache for the version go.mod pins (re-analysed on every run). Segmentation as a schedule is not explored.",
        T+"who-may-call and origin rules on go/ssa, abstract evaluation of header stores, forced-branch reachability for sentinel errors"),
 "C12":("other","Structural necessary conditions: 4x4 field-coverage table Session↔file↔MTProto decided by def-use, encoder/decoder pairing (same base64 alphabet, 8-byte LE salt), every error on the Load path reaches a non-nil error return, ENOENT→NotFound and NewMTProto continues only on nil/NotFound, cache hit guarded by mtime equality and non-nil cache, directory argument of Store never the empty Split result, makeAuthKey only on the !encrypted edge. Byte-exact round trips and torn files are delegated to encoding/json+base64 and not decided.",
        "Trusts go/ssa and the standard encoders.",
        T+"def-use coverage tables, error-discipline rule on go/ssa, guard dominance, sentinel discipline for filepath.Split"),
})
CLAIMS.update({
 "C01":("other","Type-population argument: the two reflection walks are shown to make the same decision at every field of every one of the ~1230 registered types — kind tables paired and covering every kind that occurs in any registered field, primitive pairs (width/byte order/Bool ids evaluated from the SSA), presence predicate per group on both sides with every shared flag bit of the population enumerated, tag/FlagIndex/exported/pointer-target conditions for all members, fixed-width 128/256-bit integers, no order- or time-dependence reachable from Marshal, hand-written codecs compared as siblings, unique ids. Quantifies over all types; equality of values is not decided.",
        "Trusts go/types/go/ssa and the frozen kind-pairing table; the kind tables are read from the `switch …Kind()` statements (AST) of encodeValue/decodeValue/decodeValueGeneral.",
        T+"population enumeration over go/types, kind-table extraction, abstract evaluation of primitive writers/readers, codec-sequence sibling comparison"),
 "C02":("other","Every shipped struct (1100+ definitions of api_latest.tl and the service schema) is compared field by field with its schema line; builtin ids are the CRC-32 of their TL lines; string header sizes, header bytes, alignment and the 254 / 2^24 boundaries are tabulated by evaluating the writers' and the reader's SSA for every length 0..253 and boundary lengths. Together with C01's walk rules this is the structural half of 'bytes equal the schema-defined serialisation'; byte-for-byte comparison of values with a reference encoder is not decided.",
        "Trusts go/types/go/ssa, the checker's TL reader and the TL builtin lines transcribed from the TL language definition.",
        T+"translation validation of struct layouts against schema text; abstract evaluation of buffer sizes / header stores over length grids; boundary grid for the 2^24 guard"),
})
CLAIMS.update({
 "C15":("other","Exhaustive census of panic-capable operations (explicit panics, panicking helpers, unchecked assertions, kind-dependent reflect methods, allocations/slices/indexes with non-constant operands, division) in every repository function reachable from Decode/DecodeUnknownObject (VTA + CHA edges for the reflection-fed interfaces: all UnmarshalTL methods included). Each of the ~45 sites is discharged by a machine-checked side condition (dominating Kind/len/size guards, non-negative and input-bounded sizes, reflect.New receivers), or accepted in triage.json under a named population condition that is re-evaluated over all ~1230 registered types on every run; loops bounded by wire values must exit on the sticky error. A new site, a removed guard or a population change that invalidates a condition is reported. Nil dereferences, recursion depth and exact memory proportionality are not decided.",
        "Trusts go/ssa, the VTA/CHA call graphs, the list of reflect methods that panic, and the reasons in triage.json (each one named site, one line; 24 entries, 21 of them tied to a checked condition).",
        T+"panic-site census over the call graph with guard-dominance discharge and population side conditions"),
})
CLAIMS.update({
 "C16":("other","Census of explicit panics, panicking helpers and unchecked assertions in every repository function reachable from the receive goroutine (dispatch, decode, acknowledgement, reconnect and key-exchange code; ~30 sites), each discharged, accepted with a reason (most under a machine-checked condition) or listed as a known finding; the dispatch's default arm and the pong/ack/new_session arms are shown non-fatal by forcing the type switch; on EOF the loop reconnects and no function reachable from Reconnect outside makeAuthKey writes the key, its hash or the encrypted flag. Liveness (blocking sends) and 'later requests complete' are not decided.",
        "Trusts go/ssa, VTA+CHA call graphs and triage.json (17 entries for this property). Index/slice/reflect sites are decided under C15/C17, not repeated here.",
        T+"panic-site census over the call graph from the goroutine literal, forced-branch reachability on the dispatch type switch, who-may-write over the reconnect reach"),
 "C17":("other","Error expansion is table-driven: table properties are checked exactly (15 rows ⊆ catalogue, one verb each, kinds Int/String, pairwise unambiguous, PHONE_MIGRATE_ is Int) and a census of panic-capable operations reachable from RpcErrorToNative/tryToProcessErr is discharged by guards or by those table conditions; field provenance of the structured error; Sprintf only with an extracted parameter; unknown DC → error, known DC → address stored, reconnect, request re-issued. Delivery to the right caller is C09's concern.",
        "Trusts go/ssa and constant evaluation of the two table literals.",
        T+"constant-table evaluation (go/constant), panic census with table side conditions, SSA origin rules"),
 "C20":("other","Totality and routing of Resolve decided structurally: census of panic-capable operations reachable from Resolve (all discharged by dominating guards after the fix), pairwise-disjoint path templates (map order irrelevant), host table = five hosts tested on Hostname(), foreign host matches nothing, scheme arms evaluated by forcing the switch (''/http/https → web resolver; tg/other → error), username lower-cased, invite verbatim, empty variables rejected. net/url's own totality is trusted.",
        "Trusts go/ssa and net/url.",
        T+"panic census with guard-dominance discharge (sentinel discipline for strings.Index*), constant-table evaluation, forced-branch routing"),
})
CLAIMS.update({
 "C09":("other","Structural necessary conditions of 'each call gets exactly its own result': id-domain discipline of the two waiter tables (registered under the generated request id; looked up and cleared under an echoed req_msg_id/bad_msg_id, never under the received message's own msg_id), deliver-then-forget on every path of writeRPCResponse, a fresh channel per request. Interleavings, containers/gzip orderings and 'never twice' as a history property are not decided.",
        "Trusts go/ssa and the origin classification of ids (three domains, by the call or field they come from).",
        T+"SSA origin tracing into id domains with parameter lifting to callers, dominance of delete after send"),
 "C10":("other","The ordering clause is reduced to its mechanism and decided structurally: the msg_id is drawn, the message written and seq_no advanced inside one seqNoMutex critical section (lock-scope analysis), every access to seqNo is inside it (lockset over the call graph), the content-related bit and even increment are evaluated from the SSA, the msg_id formula is evaluated for sample clock values, and every successful exit of processResponse is dominated by the parity test whose odd edge acknowledges the message's id. Clock resolution and server acceptance are not decided.",
        "Trusts go/ssa, sync.Mutex and a monotonic clock.",
        T+"lock-scope / lockset analysis over go/ssa and the call graph, forced-branch evaluation of type switches, dominance"),
 "C11":("other","Structural necessary conditions of salt rotation: both arms store the server's salt and then save the session; the retry marker goes to the waiter registered under bad_msg_id only (id-domain rule), that entry is removed from the table, and the waiter re-issues its request on the marker. Liveness over histories with k rotations is not decided.",
        "Trusts go/ssa and the id-domain classification shared with C09.",
        T+"SSA origin tracing of table keys and channel sends, dominance of store/save and send/delete pairs"),
})
CLAIMS.update({
 "C14":("other","'For any schema …' quantifies over generated programs and cannot be decided without running the generator; the structural necessary conditions decided are: reproducibility as a typestate fact (no element of a slice filled in map-iteration order reaches an emission call before a dominating sort — taint through fields, returns and arguments over the generator's SSA), every jen.Qual reference into the repository resolves, emitted tag literals = literals parseTag recognises, the generator's primitive map = the runtime's, the parser accepts every comment kind of the shipped schema, FlagIndex = position of flags:#. That generated packages compile and are faithful for arbitrary schemas is NOT decided.",
        "Trusts go/ssa/go/types; one order exception (lookup by unique key) is listed in the checker with its reason.",
        T+"unordered-until-sorted typestate/taint analysis on go/ssa, AST constant-table extraction, cross-package reference resolution"),
})

# ---- additions after the second round of seeded changes (expression extraction, engine E10) ----------------
AMEND=[]
def _amend(pid, old, new, tech_add, claim_add=""):
    AMEND.append((pid, old, new, tech_add, claim_add))

_EX = "; symbolic expression extraction (flow-sensitive value numbering over go/ssa with verified helper summaries) compared with the protocol's formula table"
_amend("C03", "The byte windows inside generateAESIGE and the cipher are not decided.",
       "The aes_key / aes_iv expressions computed by generateAESIGE are extracted for both directions and compared with the MTProto 1.0 formulas (every auth_key window, SHA-1 input order and digest slice); the block cipher itself is not decided.", _EX)
_amend("C18", "That M1 verifies for the right password only is numerical and not decided.",
       "The expressions computed for A and M1 (through x, v, k, k_v, t, u, s_a, k_a) are extracted and compared operand for operand with the SRP document's formulas; math/big and the hash functions stay uninterpreted symbols, so agreement with a server is decided only up to their correctness.", _EX)
_amend("C05", "", "", _EX, " The tmp_aes_key / tmp_aes_iv expressions of generateTempKeys are extracted and compared with the key-exchange formulas.")
_amend("C06", "", "", _EX, " The derived values of the exchange (temp keys, RSA payload and RSA step, both DH powers with one fresh exponent, auth_key, new_nonce_hash1, server_salt) are extracted as expressions and compared with the protocol's formulas; a fingerprint of the client's key anywhere in the server's list is accepted.")
_amend("C07", "", "", _EX, " The value new_nonce_hash1 is compared with is the protocol's SHA1(new_nonce|0x01|SHA1(auth_key)[0:8])[4:20]; guards extracted into helpers or accumulated in a flag are recognised.")

# --- rounds 5 and 6 -------------------------------------------------------------------------------------------
_NN = "; non-nil analysis over a checked sticky-error discipline; call-graph cycle analysis with depth gates; write-set analysis of package-level state"
_amend("C15", "Nil dereferences, recursion depth and exact memory proportionality are not decided.",
       "Further decided: every method call on a reflect.TypeOf(y) result has y non-nil (boxed, nil-tested, or a field fed only by results used while the decoder's sticky error is clear - the discipline itself is checked: the error field is monotone, functions return nil only with it set); no dereference of a call's result where the same call's error is certainly set; every cycle of the decode region's call graph passes a depth gate (the nesting a peer imposes is bounded); nothing reachable from Decode/Marshal writes package-level state outside a lock. Other nil dereferences, the size of the depth bound and exact memory proportionality are not decided.", _NN)
_amend("C16", "Liveness (blocking sends) and 'later requests complete' are not decided.",
       "Further decided: the nil-reflect.Type rule of C15 over the whole receive region (40 sites; one accepted under the checked condition 'the decoder returns a nil object only with an error' and only for values that come from the decoder); every message the transport delivers is handed on and dispatched (no successful exit of readMsg or processResponse in front of the dispatch); error-path dereferences. Liveness (blocking sends) and 'later requests complete' are not decided.", _NN)
_amend("C01", "", "", "; parameter write-set and ordering rules on the hint queue", " Also decided structurally: the hint queue is advanced before a hinted vector is read; Decode by naming a type with a hand-written decoder reads the constructor id first; a zero-length read is no read; enums are decoded by naming their type; the three hand-written wrappers are registered.")
_amend("C02", "", "", "", " A present conditional group contains every one of its fields (emission decided by the flag bit alone, R02.G); the encoder's placeholder for the flags word sits at FlagIndex().")
_amend("C03", "", "", "", " Behind the equal edge of the msg_key comparison no exit refuses the packet.")
_amend("C05", "", "", "; write-set analysis of every []byte parameter of the package", " No function of the package writes through an input parameter (element stores, copy/cipher destinations, in-place append, transitive callees); the cipher never writes a field that holds a window of the input.")
_amend("C06", "", "", "", " The padding of the client's DH message is 0..15 bytes for every data length (R06.A).")
_amend("C07", "", "", "", " resPQ.pq is split only behind a primality test and a lower bound; a recover() on the exchange path must leave through a non-nil error; the service-mode reset is a session effect no differ edge may reach.")
_amend("C08", "", "", "", " Every message a mode reader returns lives in a buffer made by that call (R08.O).")
_amend("C09", "", "", "", " Every message the transport delivers reaches the dispatch (R09.I); the gzip loop keeps the bytes returned together with an error (R09.Z).")
_amend("C10", "", "", "", " No message is dropped before the acknowledgement test (shared with C09 R09.I).")
_amend("C11", "", "", "", " SaveSession hands the salt to the store on every path and the shipped file store writes whenever it reports success.")
_amend("C12", "", "", "", " Load parses the whole file (no limited or buffered reader in between); file-system probes follow symbolic links.")
_amend("C13", "", "", "", " No field carries the name of another parameter of its definition (same-typed neighbours swapped); the three wrapper methods send their own params struct on every path.")
_amend("C14", "", "", "; comparison of the two rendered Obj-suffix predicates; access-path comparison of sorted slice and comparator", " The Obj suffix is decided by the same predicate where the struct is declared and where it is registered; every sort compares the elements it moves.")
_amend("C17", "", "", "", " The waiter is registered before the request is written; the data-centre table of a client is a map made for that client.")
_amend("C19", "", "", "", " The integers and buffers that hold a secret have crypto/rand as their only writer (a math/big method that writes the secret without reading it is reported).")
_amend("C20", "", "", "", " The host recovered for a scheme-less link ends at the first slash; the error path does not dereference the nil URL.")
