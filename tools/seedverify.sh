#!/bin/bash
# usage: tools/seedverify.sh <seed-worktree> <seed-id> <property>
# Confirms a seeded change (from a sub-agent's scratch worktree): extracts the patch and the demo into
# /verif/seeded/<seed-id>/, re-verifies in a FRESH worktree that it compiles, keeps the pinned suite green, that the
# demo fails with it and passes without it, then applies it to /repo, runs every check, and undoes it.
set -u
export GOFLAGS=-mod=mod GOPROXY=off GOSUMDB=off GOTOOLCHAIN=local
src=$1; id=$2; prop=$3
out=/verif/seeded/$id; mkdir -p $out/demo
git -C $src diff > $out/patch.diff
[ -s $out/patch.diff ] || { echo "empty patch"; exit 2; }
( cd $src && git ls-files --others --exclude-standard | grep -v 'SEED.md' ) > $out/demo/FILES
while read f; do mkdir -p $out/demo/$(dirname $f); cp $src/$f $out/demo/$f; done < $out/demo/FILES
cp $src/SEED.md $out/SEED.md 2>/dev/null
wt=$(mktemp -d /tmp/seedv.XXXXXX); rmdir $wt
git -C /repo worktree add -q --detach $wt HEAD || exit 2
res() { echo "$1" | tee -a $out/verify.log; }
: > $out/verify.log
# demo on the original
while read f; do mkdir -p $wt/$(dirname $f); cp $out/demo/$f $wt/$f; done < $out/demo/FILES
demodirs=$(sed 's#/[^/]*$##; s#^[^/]*_test.go$#.#' $out/demo/FILES | sort -u)
rundemo() { rc=0; for d in $demodirs; do (cd $wt/$d && timeout 600 go test -vet=off -count=1 -run 'Seed' . 2>&1 | tail -15) > $out/demo_$1.txt 2>&1; grep -q '^ok' $out/demo_$1.txt || rc=1; done; return $rc; }
rundemo original && res "demo on original: PASS" || res "demo on original: FAIL"
git -C $wt apply $out/patch.diff || { res "patch does not apply"; git -C /repo worktree remove --force $wt; exit 2; }
b=ok; for m in . internal/cmd/tlgen telegram/deeplinks; do (cd $wt/$m && go build ./... ) >/dev/null 2>&1 || b=FAIL; done; res "build with change: $b"
rundemo seeded && res "demo with change: PASS (not a valid seed)" || res "demo with change: FAIL (as required)"
while read f; do rm -f $wt/$f; done < $out/demo/FILES
s=$(/verif/tools/baseline.sh $wt 2>&1 | tr '\n' ' '); res "pinned suite with change: $s"
# run every check against the scratch worktree with the change applied (tools/seedmatrix.sh repeats this on /repo
# itself: git -C /repo apply, run, git -C /repo checkout -- .)
GOFLAGS=-mod=vendor /verif/bin/verif check -property all -repo $wt -verif /verif -no-evidence > $out/checks.txt 2>&1
git -C /repo worktree remove --force $wt
fired=$(grep '^VIOLATION' $out/checks.txt | sed 's/.*property=\([A-Z0-9]*\).*/\1/' | tr '\n' ' ')
res "checks that fire: ${fired:-none}"
grep -E '^(VIOLATED|UNDECIDED)' $out/checks.txt | cut -c1-260 | head -8 | tee -a $out/verify.log
