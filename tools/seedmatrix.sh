#!/bin/bash
# Applies every confirmed seed (seeded/<id>/patch.diff) to /repo in turn, runs all 20 checks, undoes it, and writes
# seeded/MATRIX.md: which checks report which seeded change with the current checker.
export GOFLAGS=-mod=vendor GOPROXY=off GOSUMDB=off GOTOOLCHAIN=local
cd /verif
[ -z "$(git -C /repo status --short)" ] || { echo "/repo is not clean"; exit 2; }
out=seeded/MATRIX.md
echo "| seed | property | checks that report it (current checker) | first reported obligation |" > $out
echo "|---|---|---|---|" >> $out
for d in seeded/*/; do
  id=$(basename $d); prop=${id%%-*}
  git -C /repo apply /verif/${d%/}/patch.diff || { echo "| $id | $prop | patch does not apply | |" >> $out; continue; }
  ./bin/verif check -property all -repo /repo -verif /verif -no-evidence > $d/checks_now.txt 2>&1
  git -C /repo checkout -- .; git -C /repo clean -fdq
  fired=$(grep '^VIOLATION' $d/checks_now.txt | sed 's/.*property=\([A-Z0-9]*\).*/\1/' | tr '\n' ' ')
  first=$(grep -E '^(VIOLATED|UNDECIDED)' $d/checks_now.txt | grep " $prop/" | head -1 | awk '{print $3}')
  [ -z "$first" ] && first=$(grep -E '^(VIOLATED|UNDECIDED)' $d/checks_now.txt | head -1 | awk '{print $3}')
  echo "| $id | $prop | ${fired:-none} | $first |" >> $out
  echo "$id: ${fired:-none}"
done
