#!/usr/bin/env python3
"""usage: tools/seedtasks.py <round-letter>
Prepares one seeding round: for every property a scratch worktree /tmp/seed/<ID>-<r> of /repo HEAD, the property text
/tmp/seed/<ID>-<r>.prop.txt (statement, quantifier, why tests cannot, anchors - nothing from /verif's machinery) and
the task description /tmp/seed/<ID>-<r>.TASK.txt a fresh sub-agent is pointed at.  PREV lists, per property, what
earlier rounds tried (one line each, appended after every round)."""
import json, subprocess, sys, os
R = sys.argv[1]
PREV = {
 "C01": [
  "the padding computation of long byte strings in the TL encoder",
  "the vector count sanity bound in the decoder scaled by the in-memory element size",
  "the encoder skipping nil pointer/interface members of a present flag group",
  "Marshal returning bytes of a pooled buffer",
  "the flags placeholder of the encoder inserted at slot 0 instead of FlagIndex()",
  "the decoder removing a vector hint from its queue only after the hinted vector was read (nested hinted vectors)",
  "the decoder not giving a nesting level back on the scalar fast path of decodeValue (depth grows with the number of values)",
  "a canonical-form check in PopMessage that refuses the long length header for 254-byte strings",
  "PopRawBytes reading the bytes.Reader directly (zero-length read at the end)",
  "the flag bit in the tag of a hand-written wrapper struct (InitConnectionParams)",
  "PutString replacing invalid UTF-8 sequences before framing",
  "the interface-fit check of decodeValue calling reflect.Value.IsNil on every decoded kind",
  "the msg_container reader written as a composite literal (fields read in struct order)",
  "a home-made emptiness test that looks through pointers held in interface fields"
 ],
 "C02": [
  "one header byte of the long-string length in the TL encoder",
  "the flags word written right after the constructor id instead of at its schema position",
  "a pre-allocation length check in PopMessage that counts padding for already aligned strings",
  "Marshal returning bytes of a pooled buffer",
  "two same-width fields of ServerDHInnerData reordered",
  "the encoder treating every bool of a flag group as carried by its bit (flags.N?Bool loses its Bool word)",
  "the flag bit numbers of two optional fields swapped in the hand-written InitConnectionParams",
  "the 2^24 refusal bound of putLargeBytes turned into 2^31",
  "encodeStruct keeping its field list on the Encoder across nested objects",
  "the decoder's depth given back by a deferred closure that captured the incremented value",
  "the flag bit decided by a home-made emptiness test (empty slice counts as absent)",
  "int128/int256 left-padded from a package-level zero array that append writes into",
  "decodeObject allocating a pointer field before its presence test",
  "the container element allocated once before the decoding loop"
 ],
 "C03": [
  "the padding amount computed in ige.Encrypt",
  "the auth_key_id taken from a cached field instead of being derived from the key in use",
  "msg_id parity tested with % 4 instead of & 3 (negative ids refused)",
  "isPacketEncrypted looking at only 4 bytes of the key id",
  "the declared-length bound of DeserializeEncrypted rewritten with >= (body that fills the packet refused)",
  "a sticky-error check added after the body read in DeserializeEncrypted (empty body refused)",
  "a package-level scratch array for the SHA-1 inputs of generateAESIGE (send and receive overlap)",
  "serializePacket doubling the seq_no a second time",
  "transport.ReadMsg refusing packets sealed with a salt other than the session's",
  "DeserializeEncrypted returning the body together with the padding (GetRestOfMessage)",
  "ige.Decrypt trimming trailing zero bytes of the plaintext",
  "serializePacket writing the session id before the salt",
  "the msg_key of a received packet read through Int128 (leading zeros lost)",
  "server packets with non-zero alignment bytes refused"
 ],
 "C04": [
  "the integer type used in the declared-length check of DeserializeEncrypted",
  "errors.Wrap of a nil error in the msg_key mismatch branch (refusal returns nil, nil)",
  "the block-length validation moved out of the cipher methods into wrappers that Decrypt does not use",
  "binary.LittleEndian.Uint64 applied to a possibly nil PopRawBytes result in DeserializeUnencrypted",
  "the body taken as the rest of the packet instead of the declared length",
  "the key-id comparison moved into the msg_key failure branch",
  "the msg_id parity test reduced to \"not divisible by 4\" in all three readers",
  "isPacketEncrypted losing its 8-byte guard behind a 4-byte early refusal in transport.ReadMsg",
  "the key id compared with bytes.EqualFold",
  "the plaintext re-sliced past the inner header before the length refusal",
  "transport.ReadMsg routing every packet to the plain parser while the session has no key",
  "the plain reader comparing the declared length with the body read instead of len(data)",
  "transport.ReadMsg latching the first auth key it saw",
  "a constant-time msg_key comparison that assigns instead of accumulating"
 ],
 "C05": [
  "the bound of the padding-strip loop in DecryptMessageWithTempKeys",
  "the length check accepting zero-length input",
  "the &15 dropped from the padding of the message-level Encrypt wrapper",
  "SHA1(new_nonce+new_nonce) computed over the minimal-length Bytes() in generateTempKeys",
  "a deferred wipe zeroing the chaining blocks of the IGE cipher after each call",
  "the message-level Encrypt appending its padding to the caller's slice in place",
  "ige.Decrypt cutting its input down to whole blocks before the length check",
  "ige.Decrypt refusing ciphertexts longer than 1 MiB",
  "Decrypt stripping trailing zero bytes from its result",
  "DecryptMessageWithTempKeys decrypting into a sync.Pool buffer",
  "NewCipher caching the key schedule keyed by the caller's (aliased) key slice",
  "EncryptMessageWithTempKeys hashing payload plus padding",
  "ige.Decrypt running the block loop in place over the caller's ciphertext",
  "NewCipher pointing a chaining register at the caller's IV slice"
 ],
 "C06": [
  "the byte width used for the salt derived from server_nonce",
  "the fingerprint search keeping only the last comparison result",
  "an over-strict length/ordering check on the transmitted bytes of g_a",
  "an int64 conversion of pq inside SplitPQ",
  "new_nonce_hash1 compared as hex strings of minimal-length Bytes()",
  "the outer % 16 dropped from the padding of EncryptMessageWithTempKeys",
  "PutMessage writing a 254-byte string in the short form (off-by-one at the tiny/large switch)",
  "RSAFingerprint trimming only one leading zero byte of the public exponent",
  "the service-channel send turned into a select with default",
  "p_q_inner_data.pq re-rendered from the parsed number (pq.Bytes())",
  "a generator check in makeAuthKey that forgets g = 4",
  "SplitPQ drawing from one package-level math/rand.Rand",
  "MakeGAB stepping b and g_b to full width while g_ab stays",
  "a server_time freshness check in makeAuthKey"
 ],
 "C07": [
  "a wrong variable in one of the nonce comparisons of makeAuthKey",
  "new_nonce_hash1 compared by suffix against a minimal-length byte string",
  "SetAuthKey persisting the session before the last reply is checked",
  "DecryptMessageWithTempKeys returning the untrimmed message when no SHA-1 prefix matches",
  "a deferred reset of service mode that also runs on the error exits",
  "a deferred recover in makeAuthKey that shadows err and returns nil",
  "the wrong-kind exit of makeAuthKey returning errors.Wrapf(nil, ...)",
  "the fingerprint search comparing only the low 32 bits",
  "makeRequest re-issuing the request on dh_gen_retry",
  "keys.RSAFingerprint memoised by a package-level sync.Once",
  "Disconnect saving the session whenever an auth key is present",
  "readMsg passing only the success constructors to the service channel",
  "the SHA-1 prefix of the DH answer compared through MessageKey (bytes 4..19 only)",
  "a wrong resPQ nonce waited out by reading the service channel again"
 ],
 "C08": [
  "a shift amount in the abridged length header writer",
  "the short-count check placed before the error check in the intermediate reader",
  "a maximum-length check in the abridged reader comparing words with bytes",
  "the intermediate writer coalescing header and body in a too-small fixed buffer",
  "large bodies read with a single conn.Read bypassing the full-read helper",
  "the intermediate reader handing out a window of a reused receive buffer",
  "tcpConn.Read turning (0, nil) into io.EOF",
  "transport.ReadMsg closing the connection after an error-code frame",
  "mode.Detect reading into a slice of the package-level announcement array",
  "SetLinger(0) on the dialled TCP socket",
  "the abridged reader wrapping its read errors with %w",
  "the intermediate length-prefix buffer kept in the mode object and shared by ReadMsg and WriteMsg",
  "a four-byte frame treated as an error code only when negative",
  "a write deadline on the TCP connection"
 ],
 "C09": [
  "registering the response waiter after the request was written",
  "delivering the result with a non-blocking select/default send",
  "the table Add method writing the map under the read lock",
  "the container decoder reusing one message object for all items",
  "the gzip loop dropping the bytes returned together with io.EOF",
  "a \"msg_id not newer than the last one\" filter at the top of processResponse",
  "GenerateMessageId with 1 ms resolution (two in-flight requests share a table key)",
  "a bounded response table that evicts the oldest waiters beyond 256 entries",
  "a gzip_packed rpc_result delivered without unwrapping",
  "Disconnect closing and forgetting every waiter",
  "container items dispatched in goroutines that share the loop variable",
  "tryToProcessErr answering nil for rpc_error codes >= 500",
  "the bad_server_salt arm leaving early when the salt is already adopted",
  "a response timeout in makeRequest that leaves the table entry"
 ],
 "C10": [
  "an early return that skips the acknowledgement in processResponse",
  "resetting seq_no to zero on every (re)connect",
  "reading the clock twice in GenerateMessageId",
  "container items processed in goroutines that capture the loop variable",
  "acknowledgements written outside the send lock",
  "the same stale-msg_id filter in readMsg, dropping messages before they are acknowledged",
  "a monotonic guard in GenerateMessageId that bumps a repeated id by one instead of four",
  "MessageRequireToAck returning false for ping (even seq_no on a content-related message)",
  "seq_no incremented in two halves around the write",
  "the ack test written as seq_no%2 == 1",
  "the bad_server_salt handler assigning bad_msg_seqno to the seq_no counter",
  "the msg_container decoder reusing one Encrypted header for every item",
  "a process-wide server-time offset applied in GenerateMessageId",
  "the send lock released by hand (leaked on the write-error return)"
 ],
 "C11": [
  "skipping the waiter notification when the new salt was already adopted",
  "registering a response channel for every outgoing message including acknowledgements",
  "closing the channel in the table Delete method",
  "the waiter repeating the request in place and returning whatever comes back unexamined",
  "the file store skipping the write when the session equals the one cached at Load",
  "adopting and saving the new salt only when a waiter is registered under bad_msg_id",
  "SaveSession handing the store write to a goroutine",
  "registering the response waiter after the write (a bad_server_salt overtakes the sender)",
  "SaveSession called before the new salt of new_session_created is assigned",
  "a guard-clause break in the bad_server_salt arm leaving m.mutex locked",
  "the rotation handler deleting every table entry older than the rejected id",
  "the bad_server_salt arm routed through writeRPCResponse (NotFound returned for a rejected ack)",
  "the retry marker sent with select/default",
  "the new_session_created arm sending the retry marker to every older entry"
 ],
 "C12": [
  "opening the session file without truncation in Store",
  "skipping the disk write when the session equals the cached last-read value",
  "restoring the stored hostname only when no ServerHost is configured",
  "Load returning the cached session when the file fails to parse",
  "the session directory probed with os.Lstat (symlinked directory refused)",
  "Load reading the session file through io.LimitReader",
  "Store writing a temp file in os.TempDir() and renaming it across file systems",
  "Load reporting a zero-length session file as not found",
  "Store rendering the JSON by hand with %q",
  "the loader's cache key kept as mtime in whole seconds",
  "NewMTProto treating a stored session with salt 0 as not encrypted",
  "NewFromFile expanding environment variables in the path",
  "telegram.NewClient checking the session directory via filepath.Split",
  "SaveSession in the rotation arm only when a waiter exists"
 ],
 "C13": [
  "two parameters swapped in one generated method signature",
  "encoded_in_bitflags added to the tag of a flags.N?Bool field",
  "the marker method of one constructor renamed so that it implements the wrong boxed type",
  "one method asserting a single constructor instead of its boxed result type",
  "two same-typed fields of NewSessionCreated swapped",
  "a hand-written wrapper method sending the bare query for one argument value",
  "Poll.FlagIndex() returning 0 instead of 1",
  "two constants of a generated enum carrying each other's constructor id",
  "one constructor dropped from the registration list in init_gen.go",
  "a field's flag bit changed in types_gen.go (WallPaperSettings.Rotation)",
  "one generated method building another method's Params struct",
  "a generated wrapper returning the type assertion's ok flag instead of the asserted value",
  "a Params field typed with the non-input twin constructor",
  "a type declared and registered without a schema line (msg_resend_ans_req)"
 ],
 "C14": [
  "the vector-ness of a parameter dropped from the generator's argument grouping test",
  "an operator-precedence slip in the parser re-typing every parameter named flags",
  "generated files opened for writing without truncation",
  "the parser refusing flag bit 31 through an off-by-one range check",
  "the registry list deciding the Obj suffix with a different predicate than the declaration",
  "a sort over a copy whose comparator indexes the original slice",
  "tlgen refusing a symlinked schema after os.Lstat",
  "the parser skipping definitions whose name merely starts with a builtin type name",
  "the wrapper body counting parameters without the flags word while the signature counts with it",
  "the enum classification taken from the last constructor of the type",
  "encoded_in_bitflags emitted for every conditional Go bool (flags.N?Bool too)",
  "FlagIndex() emitted only when maxBitflag() > 0",
  "the wrapper's error branch returning a zero literal chosen from the element type alone",
  "section markers toggling the parser's section"
 ],
 "C15": [
  "an integer overflow in the vector size bound of the decoder",
  "the gzip decompression loop exiting only on io.EOF",
  "the per-message error check of the container loop moved after the loop",
  "the no-hints guard testing nil instead of length zero",
  "a failed hinted vector returned as a non-nil wrapper with nil data (nil reflect.Type dereference)",
  "an unsynchronised package-level cache map written from parseTag",
  "the enum arm of decodeObject letting a non-member id fall through to the struct code",
  "DumpWithoutRead failing with EOF at end of input, making DecodeUnknownObject return (nil, nil)",
  "decodeValue going on into the kind switch after an error set below it",
  "the string-length bound moved into read(), after the allocation",
  "DecodeNestedObject starting the inner decoder at depth 0",
  "the nesting depth counted only for pointer and slice kinds",
  "PopRawBytes losing its size < 0 test",
  "a typed-nil test with reflect.Value.IsNil on every decoded kind"
 ],
 "C16": [
  "waiting on the goroutine wait-group from inside the reading goroutine on disconnect",
  "delivering bare pongs through writeRPCResponse and returning its not-found error",
  "registering the waiter only after a successful write",
  "new_session_created waking every older waiter (send on a channel nobody reads)",
  "Reconnect clearing the encrypted flag so that a new key exchange runs",
  "UnwrapNativeTypes applied in the default arm of processResponse (nil reflect.Type on bare null)",
  "the container decoder preallocating with the server-chosen count as capacity",
  "the gzip inflate loop ending only on io.EOF (spins on a damaged stream)",
  "Disconnect closing the waiter channels while the table keeps the entries",
  "a guard-clause break in the bad_server_salt arm leaving m.mutex locked",
  "the EOF arm of the receive loop calling CreateConnection without Disconnect",
  "the waiter table's Add taking RLock instead of Lock",
  "a replay guard on the highest server msg_id at the entry of processResponse",
  "the pinger not counted in routineswg while still calling Done"
 ],
 "C17": [
  "an extra row in the error-prefix table",
  "cutting the parameter out by index arithmetic instead of TrimPrefix/TrimSuffix",
  "a handled PHONE_MIGRATE falling through to return the original error",
  "a catalogue fast path in RpcErrorToNative that bypasses the prefix table",
  "the default data-centre table hoisted into a shared package variable",
  "registering the response waiter after the write in sendPacket",
  "makeRequest silently re-issuing the request on rpc_error code -503",
  "Reconnect reloading the stored session, which puts the old data centre address back",
  "SetDCList rebuilding the table aside with the old entries copied last",
  "negative rpc_error codes made positive in RpcErrorToNative",
  "a gzip_packed rpc_result delivered without unwrapping (rpc_error lost)",
  "a negative PHONE_MIGRATE target flipped to its absolute value",
  "a failed migration reconnecting back and returning that reconnect's result",
  "structured errors cached by error text (code included)"
 ],
 "C18": [
  "the 256-byte padding dropped on one SRP intermediate value",
  "the exponent a+u*x reduced modulo p",
  "the password trimmed of white space in the exported wrapper",
  "B < p checked with bytes.Compare on the transmitted bytes",
  "a cached big.Int multiplier mutated in place by k.Mul(k, v)",
  "validateCurrentAlgo applied to the already padded/truncated B",
  "PH2 memoised under PH1, which collides across (password, salt1) splits",
  "calcSHA256 joining its parts in a fixed 1024-byte buffer",
  "saltingHashing appending onto the caller's salt slice",
  "the exported wrapper testing res == nil before err",
  "H(p) xor H(g) computed through big.Int (leading zero bytes lost)",
  "the SRP group check refusing g >= 7",
  "the 'no password' early return also firing for an empty B",
  "the wrap-around branch of t = B - k*v computed the other way round"
 ],
 "C19": [
  "a math/rand fallback when crypto/rand fails",
  "a time-seeded *rand.Rand passed as the reader argument of crypto/rand.Int",
  "the nonce helper switched to go-dry RandomBytes (math/rand)",
  "server-supplied secure_random overwriting the crypto/rand bytes of the SRP ephemeral",
  "an out-of-range DH exponent clamped to a public constant",
  "tl.NewInt256() (zero) used instead of tl.RandomInt256() for new_nonce",
  "a buffered crypto/rand reader whose short read leaves half of new_nonce zero",
  "nonce bytes passing through a shared, wiped package-level scratch buffer",
  "MakeGAB memoising (b, g^b) per group in a sync.Map",
  "the clock OR-ed into the req_pq nonce after the draw",
  "the upper half of the req_pq nonce overwritten with the session id",
  "the SRP ephemeral redrawn from math/rand when it is >= p",
  "a Config.Rand field assigned to crypto/rand.Reader in NewMTProto",
  "the SRP ephemeral derived deterministically from password and srp_B"
 ],
 "C20": [
  "lower-casing the whole URL path before template matching",
  "matching templates against the escaped path",
  "strings.TrimLeft of the slashes before splitting the path into segments",
  "decoding the URL query into the result object after the path was mapped",
  "the error path of Resolve calling String() on the nil URL",
  "fixURLHost cutting the host at the last slash",
  "strings.SplitN in matchPath letting the last template variable swallow extra segments",
  "the address-literal guard hoisted in front of fixURLHost (scheme-less bracketed host)",
  "TrimPrefix(username, \"@\") before lower-casing the domain",
  "a third path template /joinchat overlapping /{username}",
  "host membership tested with strings.EqualFold",
  "lower-casing of the username skipped unless unicode.IsUpper finds a letter",
  "the scheme switch rewritten with strings.HasPrefix(\"https\", scheme)",
  "the port cut at the first colon by hand instead of Hostname()"
 ]
}
TASK = 'You are helping test a verification framework by writing ONE realistic defect into a Go library. Work ONLY inside the git worktree /tmp/seed/{ID}-{R} (a checkout of the pure-Go MTProto/Telegram client library xelaj/mtproto). Do NOT read or write anything under /verif, /repo or /root/.vp, and do not look at other directories under /tmp/seed. Do NOT use `git stash` (the stash is shared with other worktrees): to run something without your change use `git diff > /tmp/seed/{ID}-{R}.patch; git apply -R /tmp/seed/{ID}-{R}.patch; ...; git apply /tmp/seed/{ID}-{R}.patch`.\n\nThe property the library is supposed to satisfy is in /tmp/seed/{ID}-{R}.prop.txt - read it first, then read the source files it names (and whatever they call).\n\nEnvironment (every shell call): `export GOFLAGS=-mod=mod GOPROXY=off GOSUMDB=off GOTOOLCHAIN=local` (no network, nothing can be downloaded). The repository has three Go modules: `.`, `internal/cmd/tlgen`, `telegram/deeplinks`. The existing test suite is: `for m in . internal/cmd/tlgen telegram/deeplinks; do (cd /tmp/seed/{ID}-{R}/$m && go test -vet=off -count=1 ./...) || echo FAILED; done` (building package telegram takes about a minute).\n\nTask: make ONE small, realistic change to the non-test source (the kind of slip, "simplification", "optimisation", "hardening", refactoring or well-meant "fix" a hurried maintainer could plausibly make and a reviewer could plausibly miss) such that the property NO LONGER HOLDS for some input / path / schedule / history, while (a) everything still compiles in all three modules and (b) the existing test suite still passes, unedited. Prefer a defect that needs something specific to manifest (a particular value shape, boundary, rare path, interleaving or error condition) over one that breaks every use. Keep the change minimal (1-12 lines). Previous testers already tried these: {PREV}. Choose a DIFFERENT place and mechanism from all of them. Go through the clauses of the property statement and its quantifier one by one, list which clause each earlier attempt attacked, and pick a clause (or a helper function, a caller, an initialisation, a cleanup path) nobody has touched; the less obvious the better, as long as the property is genuinely broken.\n\nDeliver, all inside /tmp/seed/{ID}-{R}:\n1. the change itself, left uncommitted in the worktree (source files only);\n2. a demonstration: NEW test file(s) named zz_seed_demo_test.go in the package(s) concerned (same-package tests may use unexported identifiers), test names starting with TestSeed, that FAIL with your change and PASS on the original code - verify both yourself; it must be deterministic (or repeat enough to be reliable) and finish within a minute; use fake connections/servers/in-memory pipes where needed, never the network;\n3. /tmp/seed/{ID}-{R}/SEED.md describing: what you changed and where, why it breaks the property, what it needs in order to manifest, and the exact commands you ran with their results.\n\nFinish by reporting: the output of `git -C /tmp/seed/{ID}-{R} diff` (source change only), the demo file path(s), and the observed results of the runs (suite with change, demo with change, demo without change). If your first idea turns out to be caught by the existing tests, try another. If, while reading, you notice something in the UNCHANGED code that already violates the property, mention it briefly at the end of your report (do not use it as your seed).\n'
os.makedirs('/tmp/seed', exist_ok=True)
for l in open('/verif/properties.jsonl'):
    p = json.loads(l)
    k = p['id']
    txt = '%s - %s\n\nStatement:\n%s\n\nQuantifier (%s):\n%s\n\nWhy unit tests cannot settle it:\n%s\n\nWhere it lives:\n' % (k, p['title'], p['statement'], ', '.join(p['quantifier']['over']), p['quantifier']['text'], p['why_tests_cant'])
    a = p['anchors']
    txt += 'files: ' + ', '.join(a['files']) + '\n'
    for s in a.get('state', []):
        txt += 'state: %s - %s (%s)\n' % (s['name'], s['meaning'], s['where'])
    for m in a.get('mechanism', []):
        txt += 'mechanism: %s (%s)\n' % (m['name'], m['where'])
    txt += 'observe at: ' + '; '.join(a.get('observe_at', [])) + '\n'
    open('/tmp/seed/%s-%s.prop.txt' % (k, R), 'w').write(txt)
    prev = '; '.join('(%d) "%s"' % (i + 1, x) for i, x in enumerate(PREV[k]))
    open('/tmp/seed/%s-%s.TASK.txt' % (k, R), 'w').write(TASK.replace('{ID}', k).replace('{R}', R).replace('{PREV}', prev))
    subprocess.run(['git', '-C', '/repo', 'worktree', 'add', '-q', '--detach', '/tmp/seed/%s-%s' % (k, R), 'HEAD'], check=True)
print('prepared round', R)
