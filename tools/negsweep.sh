#!/bin/bash
# usage: tools/negsweep.sh <round-tag> [jobs]  - runs tools/negverify.sh on every /tmp/neg/<ID>-<tag>.r<k>.diff not verified yet
cd /verif
R=$1; J=${2:-3}
ls /tmp/neg/*-$R.r*.diff 2>/dev/null | while read f; do
  b=$(basename $f .diff); id=${b%%-*}; k=${b##*.}; nid=$id-$R-$k
  [ -f negative/$nid/verify.log ] && grep -q 'checks that fire' negative/$nid/verify.log && continue
  echo "$f $nid $id"
done | xargs -P $J -L 1 bash -c 'tools/negverify.sh $0 $1 $2 > /dev/null 2>&1; echo "$1: $(grep "checks that fire" negative/$1/verify.log)"'
