#!/bin/bash
# Re-runs every check against every kept negative control (negative/<id>/patch.diff), each in its own scratch worktree
# of /repo HEAD (removed afterwards).  All must stay silent.  usage: tools/negmatrix.sh [jobs] [id-substring]
export GOFLAGS=-mod=vendor GOPROXY=off GOSUMDB=off GOTOOLCHAIN=local
cd /verif
J=${1:-4}; SUB=${2:-}
mkdir -p /tmp/nx
one() {
  id=$1; wt=/tmp/nx/$id
  git -C /repo worktree add -q --detach $wt HEAD 2>/dev/null || { echo "$id worktree failed"; return; }
  if git -C $wt apply /verif/negative/$id/patch.diff 2>/dev/null; then
    ${VERIF_BIN:-./bin/verif} check -property all -repo $wt -verif /verif -no-evidence > negative/$id/checks_now.txt 2>&1
  else
    echo "patch does not apply" > negative/$id/checks_now.txt
  fi
  git -C /repo worktree remove --force $wt
  echo "$id: $(grep '^VIOLATION' negative/$id/checks_now.txt | sed 's/.*property=\([A-Z0-9]*\).*/\1/' | tr '\n' ' ')"
}
export -f one
ls -d negative/*/ | xargs -n1 basename | grep "$SUB" | xargs -P $J -I{} bash -c 'one {}'
git -C /repo worktree prune
rmdir /tmp/nx 2>/dev/null
