#!/bin/bash
# Parallel variant of seedmatrix.sh: every confirmed seed is applied to its own scratch worktree of /repo HEAD under
# /tmp/mx (removed afterwards), all 20 checks run against that worktree, and seeded/MATRIX.md is assembled at the end.
# usage: tools/seedmatrix_par.sh [jobs]   (default 4)
export GOFLAGS=-mod=vendor GOPROXY=off GOSUMDB=off GOTOOLCHAIN=local
cd /verif
J=${1:-4}
mkdir -p /tmp/mx
one() {
  d=$1; id=$(basename $d); wt=/tmp/mx/$id
  git -C /repo worktree add -q --detach $wt HEAD 2>/dev/null || { echo "$id worktree failed"; return; }
  if git -C $wt apply /verif/seeded/$id/patch.diff 2>/dev/null; then
    ${VERIF_BIN:-./bin/verif} check -property all -repo $wt -verif /verif -no-evidence > seeded/$id/checks_now.txt 2>&1
  else
    echo "patch does not apply" > seeded/$id/checks_now.txt
  fi
  git -C /repo worktree remove --force $wt
  echo "$id: $(grep '^VIOLATION' seeded/$id/checks_now.txt | sed 's/.*property=\([A-Z0-9]*\).*/\1/' | tr '\n' ' ')"
}
export -f one
ls -d seeded/*/ | sed 's|/$||' | xargs -P $J -I{} bash -c 'one {}'
out=seeded/MATRIX.md
echo "| seed | property | checks that report it (current checker) | first reported obligation |" > $out
echo "|---|---|---|---|" >> $out
for d in seeded/*/; do
  id=$(basename $d); prop=${id%%-*}
  if grep -q "patch does not apply" $d/checks_now.txt; then echo "| $id | $prop | patch does not apply | |" >> $out; continue; fi
  fired=$(grep '^VIOLATION' $d/checks_now.txt | sed 's/.*property=\([A-Z0-9]*\).*/\1/' | tr '\n' ' ')
  first=$(grep -E '^(VIOLATED|UNDECIDED)' $d/checks_now.txt | grep " $prop/" | head -1 | awk '{print $3}')
  [ -z "$first" ] && first=$(grep -E '^(VIOLATED|UNDECIDED)' $d/checks_now.txt | head -1 | awk '{print $3}')
  echo "| $id | $prop | ${fired:-none} | $first |" >> $out
done
git -C /repo worktree prune
rmdir /tmp/mx 2>/dev/null
