#!/bin/bash
# usage: tools/negverify.sh <diff-file> <neg-id> <property>
# A behaviour-preserving refactoring written by an independent agent: confirms in a fresh scratch worktree that it
# applies, compiles and keeps the pinned suite green, then runs every check against that worktree.  Every check must
# stay silent; output that is not silent is a false alarm to repair in the checker (or a refactoring that is not
# behaviour-preserving after all - decide by reading).  Kept under /verif/negative/<neg-id>/.
set -u
export GOFLAGS=-mod=mod GOPROXY=off GOSUMDB=off GOTOOLCHAIN=local
diff=$1; id=$2; prop=$3
out=/verif/negative/$id; mkdir -p $out
cp $diff $out/patch.diff
wt=$(mktemp -d /tmp/negv.XXXXXX); rmdir $wt
git -C /repo worktree add -q --detach $wt HEAD || exit 2
: > $out/verify.log
res() { echo "$1" | tee -a $out/verify.log; }
git -C $wt apply $out/patch.diff || { res "patch does not apply"; git -C /repo worktree remove --force $wt; exit 2; }
b=ok; for m in . internal/cmd/tlgen telegram/deeplinks; do (cd $wt/$m && go build ./... ) >/dev/null 2>&1 || b=FAIL; done; res "build: $b"
if [ "${NEG_SKIP_SUITE:-0}" != 1 ]; then s=$(/verif/tools/baseline.sh $wt 2>&1 | tr '\n' ' '); res "pinned suite: $s"; fi
GOFLAGS=-mod=vendor /verif/bin/verif check -property all -repo $wt -verif /verif -no-evidence > $out/checks.txt 2>&1
git -C /repo worktree remove --force $wt
fired=$(grep '^VIOLATION' $out/checks.txt | sed 's/.*property=\([A-Z0-9]*\).*/\1/' | tr '\n' ' ')
res "checks that fire: ${fired:-none}"
grep -E '^(VIOLATED|UNDECIDED)' $out/checks.txt | cut -c1-300 | head -12 | tee -a $out/verify.log
