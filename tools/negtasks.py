#!/usr/bin/env python3
"""usage: tools/negtasks.py <round-tag>
Prepares one round of *negative controls by independent agents*: for every property a scratch worktree
/tmp/neg/<ID>-<tag> of /repo HEAD, the property text /tmp/neg/<ID>-<tag>.prop.txt and a task description
/tmp/neg/<ID>-<tag>.TASK.txt asking a fresh sub-agent for behaviour-preserving refactorings of the code the property
lives in (each delivered as its own patch).  The checks must stay silent on every one of them (tools/negverify.sh)."""
import json, subprocess, sys, os
R = sys.argv[1]
TASK = '''You are helping test a verification framework for a Go library by REFACTORING code WITHOUT changing its behaviour. Work ONLY inside the git worktree /tmp/neg/{ID}-{R} (a checkout of the pure-Go MTProto/Telegram client library xelaj/mtproto). Do NOT read or write anything under /verif, /repo or /root/.vp, and do not look at other directories under /tmp/neg or /tmp/seed. Do NOT use `git stash` (shared between worktrees).

The property the library satisfies is in /tmp/neg/{ID}-{R}.prop.txt - read it first, then read the source files it names (and what they call). The framework under test decides this property by static analysis of the source. We want to know whether it raises FALSE alarms on code where the property still holds.

Environment (every shell call): `export GOFLAGS=-mod=mod GOPROXY=off GOSUMDB=off GOTOOLCHAIN=local` (no network). The repository has three Go modules: `.`, `internal/cmd/tlgen`, `telegram/deeplinks`. Test suite: `for m in . internal/cmd/tlgen telegram/deeplinks; do (cd /tmp/neg/{ID}-{R}/$m && go test -vet=off -count=1 ./...) || echo FAILED; done` (package telegram takes about a minute to build; for a refactoring that touches one package you may run that package's tests plus `go build ./...` in all three modules).

Task: produce THREE independent refactorings (each on its own, starting from the original code) of the code this property is anchored in - the functions named under "Where it lives" and their helpers. Each must be the kind of change a maintainer really makes and a reviewer accepts as "no functional change", and must be STRICTLY behaviour-preserving for every input, path, error condition and schedule: same results, same errors in the same situations, same bytes written, same side effects in the same order as far as anything observable goes, same locking discipline, same randomness sources - so the property certainly still holds. Make the three different in kind; pick from, for example:
  (a) extract a block into a helper function or method (or inline a small helper into its caller); move a function to another file of the same package;
  (b) restructure control flow: early return <-> if/else, a flag variable instead of an early return, switch <-> if-chain, `for i := range` <-> counted loop, loop with break <-> loop condition, De Morgan on a condition, swapped operands of == / inverted comparison with swapped branches;
  (c) restructure data flow: introduce or remove temporaries, rename locals/parameters/unexported functions, reorder statements that are independent of each other, build a byte slice with append instead of make+copy (same result), use an equivalent standard-library call (bytes.Equal <-> bytes.Compare()==0, x.Cmp(y)!=0 <-> !(x.Cmp(y)==0)), defer for an unlock that was explicit on every path (or the reverse) when that is truly equivalent;
  (d) cosmetic-but-structural: changed error message texts (not error identity), added logging/debug output that does not touch state, added comments plus a defensive check that can never fire is NOT allowed (it changes paths) - keep to real equivalence.
Each refactoring should touch the code that matters for the property (not an unrelated corner), be 5-40 changed lines, and compile in all three modules with the test suite still green. Do NOT weaken, remove, reorder-past-an-effect, or bypass any check, bound, lock, comparison or error path; do NOT change any constant, width, formula, table row, tag or schema-derived text. If you are not certain a change is behaviour-preserving, do not use it.

Deliver: for k = 1, 2, 3 the file /tmp/neg/{ID}-{R}.r<k>.diff (output of `git diff` with only that refactoring applied; verify each applies cleanly to the original with `git apply --check`), and leave the worktree clean (`git checkout -- .`) at the end. Also write /tmp/neg/{ID}-{R}.NOTES.md with, per refactoring: what you changed, why it is behaviour-preserving, and the commands you ran with results.

Finish by reporting the three diffs (briefly described) and the test results for each.
'''
os.makedirs('/tmp/neg', exist_ok=True)
for l in open('/verif/properties.jsonl'):
    p = json.loads(l)
    k = p['id']
    txt = '%s - %s\n\nStatement:\n%s\n\nQuantifier (%s):\n%s\n\nWhere it lives:\n' % (k, p['title'], p['statement'], ', '.join(p['quantifier']['over']), p['quantifier']['text'])
    a = p['anchors']
    txt += 'files: ' + ', '.join(a['files']) + '\n'
    for s in a.get('state', []):
        txt += 'state: %s - %s (%s)\n' % (s['name'], s['meaning'], s['where'])
    for m in a.get('mechanism', []):
        txt += 'mechanism: %s (%s)\n' % (m['name'], m['where'])
    txt += 'observe at: ' + '; '.join(a.get('observe_at', [])) + '\n'
    open('/tmp/neg/%s-%s.prop.txt' % (k, R), 'w').write(txt)
    open('/tmp/neg/%s-%s.TASK.txt' % (k, R), 'w').write(TASK.replace('{ID}', k).replace('{R}', R))
    subprocess.run(['git', '-C', '/repo', 'worktree', 'add', '-q', '--detach', '/tmp/neg/%s-%s' % (k, R), 'HEAD'], check=True)
print('prepared negative round', R)
