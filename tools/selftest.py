#!/usr/bin/env python3
"""Mutation self-test of the checker (not a registered check; a weak checker is not a property violation).

Each mutation in selftest/mutations.json is a textual edit of one file of /repo that still compiles and keeps the
pinned test suite green (verified when the mutation was written; re-verified with --tests).  The mutation is applied
to a scratch git worktree of /repo's HEAD under $TMPDIR, the named property's check is run there with
`bin/verif check -repo <scratch> -no-evidence`, and the expected obligation key must be reported as VIOLATED
(or, for negative controls with "expect": null, nothing may be reported).  One process per variant.

usage: tools/selftest.py [-j N] [--tests] [name-substring ...]
Writes selftest/results.json."""
import json, os, subprocess, sys, tempfile, shutil, concurrent.futures, time

VERIF = '/verif'
ENV = dict(os.environ, GOFLAGS='-mod=mod', GOPROXY='off', GOSUMDB='off', GOTOOLCHAIN='local', GOWORK='off')

def run(cmd, cwd=None, env=None, timeout=900):
    p = subprocess.run(cmd, cwd=cwd, env=env or ENV, shell=isinstance(cmd, str), capture_output=True, text=True, timeout=timeout)
    return p.returncode, p.stdout + p.stderr

def one(m, tests):
    t0 = time.time()
    wt = tempfile.mkdtemp(prefix='selftest.')
    os.rmdir(wt)
    res = {'name': m['name'], 'property': m['property'], 'expect': m.get('expect')}
    try:
        rc, out = run(['git', '-C', '/repo', 'worktree', 'add', '-q', '--detach', wt, 'HEAD'])
        if rc != 0:
            res['status'] = 'worktree-failed'; res['detail'] = out[-300:]; return res
        for e in m['edits']:
            p = os.path.join(wt, e['file'])
            s = open(p).read()
            if e['old'] not in s:
                res['status'] = 'skipped-not-applicable'; res['detail'] = 'pattern not found in ' + e['file']; return res
            s = s.replace(e['old'], e['new'], e.get('count', 1))
            open(p, 'w').write(s)
        for mod in ['.', 'internal/cmd/tlgen', 'telegram/deeplinks']:
            rc, out = run('go build ./... && go vet -vettool=/bin/true ./... 2>/dev/null; go test -count=1 -run XXX_NONE ./... >/dev/null', cwd=os.path.join(wt, mod))
            rc, out = run('go build ./...', cwd=os.path.join(wt, mod))
            if rc != 0:
                res['status'] = 'does-not-compile'; res['detail'] = out[-400:]; return res
        if tests:
            for mod in ['.', 'internal/cmd/tlgen', 'telegram/deeplinks']:
                rc, out = run('go test -vet=off -count=1 ./...', cwd=os.path.join(wt, mod))
                if rc != 0:
                    res['status'] = 'breaks-tests'; res['detail'] = out[-400:]; return res
        env = dict(os.environ, GOFLAGS='-mod=vendor', GOPROXY='off', GOSUMDB='off', GOTOOLCHAIN='local', GOWORK='off')
        rc, out = run([os.environ.get('VERIF_BIN', VERIF + '/bin/verif'), 'check', '-property', m['property'], '-repo', wt, '-verif', VERIF, '-no-evidence'], env=env)
        viol = [l for l in out.splitlines() if l.startswith('VIOLATED') or l.startswith('UNDECIDED')]
        res['reported'] = [l.split(' ')[2] for l in viol][:12]
        exp = m.get('expect')
        if exp is None:
            res['status'] = 'ok-silent' if rc == 0 and not viol else 'FALSE-ALARM'
        else:
            hit = [l for l in viol if exp in l]
            res['status'] = 'caught' if hit else ('caught-other-key' if viol else 'MISSED')
        if res['status'] in ('MISSED', 'FALSE-ALARM', 'caught-other-key'):
            res['detail'] = '\n'.join(viol[:4])[:600]
    finally:
        run(['git', '-C', '/repo', 'worktree', 'remove', '--force', wt])
        shutil.rmtree(wt, ignore_errors=True)
        res['wall_s'] = round(time.time() - t0, 1)
    return res

def main():
    args = sys.argv[1:]
    j, tests, filt = 6, False, []
    while args:
        a = args.pop(0)
        if a == '-j': j = int(args.pop(0))
        elif a == '--tests': tests = True
        else: filt.append(a)
    muts = json.load(open(VERIF + '/selftest/mutations.json'))
    if filt:
        muts = [m for m in muts if any(f in m['name'] for f in filt)]
    subprocess.run(['/verif/run.sh', 'C20', 'quick'], capture_output=True)  # make sure bin/verif is built
    results = []
    with concurrent.futures.ThreadPoolExecutor(max_workers=j) as ex:
        for r in ex.map(lambda m: one(m, tests), muts):
            print(f"{r['status']:<22} {r['property']} {r['name']}  {r.get('detail','')[:160]}", flush=True)
            results.append(r)
    if not filt:
        json.dump({'head': subprocess.check_output(['git', '-C', '/repo', 'rev-parse', '--short', 'HEAD'], text=True).strip(), 'results': results},
                  open(VERIF + '/selftest/results.json', 'w'), indent=1)
    bad = [r for r in results if r['status'] in ('MISSED', 'FALSE-ALARM', 'does-not-compile', 'breaks-tests')]
    print(f"{len(results)} mutations: {sum(r['status'].startswith('caught') for r in results)} caught, {sum(r['status']=='ok-silent' for r in results)} silent controls, {len(bad)} need attention")
    return 1 if bad else 0

sys.exit(main())
