#!/bin/sh
# validates MANIFEST.json and every evidence file against the schemas
python3-vt - <<'PY'
import json,jsonschema,glob,sys
jsonschema.validate(json.load(open('/verif/MANIFEST.json')),json.load(open('/root/.vp/MANIFEST.schema.json')))
es=json.load(open('/root/.vp/EVIDENCE.schema.json'))
m=json.load(open('/verif/MANIFEST.json'))
bad=0
for c in m['checks']:
    try:
        jsonschema.validate(json.load(open('/verif/'+c['evidence_file'])),es)
    except Exception as e:
        bad+=1; print('BAD',c['evidence_file'],str(e)[:300])
ids=[json.loads(l)['id'] for l in open('/verif/properties.jsonl')]
cl={c['property_id'] for c in m['checks']}; na={n['property_id'] for n in m.get('not_applicable',[])}
for i in ids:
    if (i in cl)==(i in na): bad+=1; print('property',i,'claimed' if i in cl else 'missing','and' if i in na else '', 'n/a' if i in na else '')
print('validate:', 'ok' if not bad else 'FAILED', len(cl),'claimed',len(na),'n/a')
sys.exit(1 if bad else 0)
PY
