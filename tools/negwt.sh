#!/bin/bash
# usage: tools/negwt.sh <neg-id> [props]  - scratch worktree /tmp/nw/<id> with the negative applied; runs the given properties (default all)
id=$1; props=${2:-all}; wt=/tmp/nw/$id
export GOFLAGS=-mod=vendor GOPROXY=off GOSUMDB=off GOTOOLCHAIN=local
if [ ! -d $wt ]; then mkdir -p /tmp/nw; git -C /repo worktree add -q --detach $wt HEAD && git -C $wt apply /verif/negative/$id/patch.diff || exit 2; fi
/verif/bin/verif check -property $props -repo $wt -verif /verif -no-evidence 2>&1 | grep -E '^(VIOLATED|UNDECIDED|NORMALISED|VIOLATION)' | cut -c1-${CUT:-500}
