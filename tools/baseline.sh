#!/bin/sh
# Runs /repo's pinned test suite (three modules) offline; prints pass/fail counts. Not a registered check.
export GOFLAGS=-mod=mod GOPROXY=off GOSUMDB=off GOTOOLCHAIN=local
REPO=${1:-/repo}
rc=0
for m in . internal/cmd/tlgen telegram/deeplinks; do
  (cd "$REPO/$m" && go test -vet=off -count=1 -json ./... 2>&1) > /tmp/baseline.$$.json || rc=1
  python3 - /tmp/baseline.$$.json <<'PY'
import json,sys
p=f=0
for l in open(sys.argv[1]):
    try: e=json.loads(l)
    except: continue
    if e.get('Test') and e.get('Action')=='pass': p+=1
    if e.get('Test') and e.get('Action')=='fail': f+=1; print('FAIL',e['Package'],e['Test'])
print('pass',p,'fail',f)
PY
  rm -f /tmp/baseline.$$.json
done
exit $rc
