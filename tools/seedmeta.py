#!/usr/bin/env python3
"""usage: tools/seedmeta.py <seed-id> "<what it needs in order to manifest>"
Writes seeded/<seed-id>/meta.json from the verification log left by tools/seedverify.sh."""
import json, os, sys
sid, needs = sys.argv[1], sys.argv[2]
d = '/verif/seeded/' + sid
log = open(d + '/verify.log').read()
fired = [l.split(':', 1)[1].split() for l in log.splitlines() if l.startswith('checks that fire')][0]
fired = [] if fired == ['none'] else fired
meta = {
    'seed': sid, 'property': sid.split('-')[0],
    'source': 'independent sub-agent given only the property text and a scratch worktree (/tmp/seed/%s)' % sid,
    'needs_to_manifest': needs,
    'confirmed': {
        'compiles': 'build with change: ok' in log,
        'pinned_suite_passes': 'fail 0 pass 2 fail 0 pass 2 fail 0' in log and 'pass 58' in log,
        'demo_fails_with_change': 'demo with change: FAIL' in log,
        'demo_passes_without': 'demo on original: PASS' in log,
    },
    'what_was_run': 'tools/seedverify.sh: fresh worktree of /repo HEAD; demo on original; git apply patch.diff; go build ./... in 3 modules; demo again; tools/baseline.sh; bin/verif check -property all -no-evidence against that worktree with the patch applied; tools/seedmatrix.sh repeats the checks on /repo itself (git -C /repo apply patch.diff, run, git -C /repo checkout -- .)',
    'checks_that_fired_when_first_run': fired,
    'demo_files': [l.strip() for l in open(d + '/demo/FILES') if l.strip()],
}
json.dump(meta, open(d + '/meta.json', 'w'), indent=1)
print(sid, meta['confirmed'], fired)
