#!/bin/sh
# usage: tools/repro.sh repro/<pkgdir-encoded>__name_test.go [git-rev]   (pkgdir uses '+' for '/')
# Copies the test into a scratch worktree of /repo at <rev> (default HEAD), runs it, removes the worktree.
set -u
export GOFLAGS=-mod=mod GOPROXY=off GOSUMDB=off GOTOOLCHAIN=local
f=$1; rev=${2:-HEAD}
base=$(basename "$f"); dir=$(echo "${base%%__*}" | tr '+' '/'); [ "$dir" = "root" ] && dir=.
wt=$(mktemp -d /tmp/repro.XXXXXX); rmdir "$wt"
git -C /repo worktree add -q --detach "$wt" "$rev" || exit 2
cp "$f" "$wt/$dir/zz_repro_test.go"
mod=$wt; case "$dir" in internal/cmd/tlgen*) mod=$wt/internal/cmd/tlgen;; telegram/deeplinks*) mod=$wt/telegram/deeplinks;; esac
(cd "$wt/$dir" && go test -vet=off -count=1 -run 'TestRepro' -v . 2>&1 | tail -${LINES_OUT:-25})
rc=$?
git -C /repo worktree remove --force "$wt"
exit $rc
