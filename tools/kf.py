#!/usr/bin/env python3
"""tools/kf.py add <property> <key> <what> <reproduced>   |   tools/kf.py fixed <property> <commit> <what>
Edits known_findings.json (a committed file; never written by a check at run time)."""
import json,sys
p='/verif/known_findings.json'
k=json.load(open(p))
if sys.argv[1]=='add':
    _,_,prop,key,what,repro=sys.argv
    k['findings']=[f for f in k['findings'] if f['key']!=key]
    k['findings'].append({"property":prop,"key":key,"what":what,"reproduced":repro})
elif sys.argv[1]=='fixed':
    _,_,prop,commit,what=sys.argv
    k['fixed'].append(f"fixed: property={prop} {commit} {what}")
elif sys.argv[1]=='rm':
    k['findings']=[f for f in k['findings'] if f['key']!=sys.argv[2]]
k['findings'].sort(key=lambda f:(f['property'],f['key']))
json.dump(k,open(p,'w'),indent=1,ensure_ascii=False)
