package objects

import (
	"bytes"
	"testing"

	"github.com/xelaj/mtproto/internal/encoding/tl"
	"github.com/xelaj/mtproto/internal/mtproto/messages"
)

// C01: a container written by the library must be read back by the library (bytes = length of the body).
func TestReproC01ContainerRoundTrip(t *testing.T) {
	body1, _ := tl.Marshal(&Pong{MsgID: 1, PingID: 2})
	body2, _ := tl.Marshal(&MsgsAck{MsgIDs: []int64{7}})
	in := MessageContainer{{MsgID: 5, SeqNo: 1, Msg: body1}, {MsgID: 9, SeqNo: 3, Msg: body2}}
	b, err := tl.Marshal(&in)
	if err != nil {
		t.Fatal(err)
	}
	o, err := tl.DecodeUnknownObject(b)
	if err != nil {
		t.Fatal(err)
	}
	out := *o.(*MessageContainer)
	if len(out) != 2 || !bytes.Equal(out[0].Msg, body1) || !bytes.Equal(out[1].Msg, body2) {
		var lens []int
		for _, m := range out {
			lens = append(lens, len(m.Msg))
		}
		t.Fatalf("bodies of %d and %d bytes were read back as %v bytes", len(body1), len(body2), lens)
	}
	_ = messages.Encrypted{}
}
