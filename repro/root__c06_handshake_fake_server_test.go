package mtproto

import (
	"bytes"
	"crypto/aes"
	"crypto/rand"
	"crypto/rsa"
	"crypto/sha1"
	"encoding/binary"
	"fmt"
	"math/big"
	"testing"

	"github.com/xelaj/mtproto/internal/encoding/tl"
	"github.com/xelaj/mtproto/internal/mtproto/messages"
	"github.com/xelaj/mtproto/internal/mtproto/objects"
	"github.com/xelaj/mtproto/internal/session"
	"github.com/xelaj/mtproto/internal/utils"
)

// A conformant key-exchange server written from the MTProto specification with fixed-width byte strings only
// (no code shared with the client's handshake helpers), plugged in as the client's transport.

type memStore struct{ s *session.Session }

func (m *memStore) Load() (*session.Session, error) { return m.s, nil }
func (m *memStore) Store(s *session.Session) error  { m.s = s; return nil }

func sha(b ...[]byte) []byte { h := sha1.New(); for _, x := range b { h.Write(x) }; return h.Sum(nil) }

func fixed(x *big.Int, n int) []byte { out := make([]byte, n); x.FillBytes(out); return out }

func igeEncrypt(key, iv, in []byte) []byte {
	c, _ := aes.NewCipher(key)
	out := make([]byte, len(in))
	cprev, pprev := iv[:16], iv[16:]
	for i := 0; i < len(in); i += 16 {
		x := make([]byte, 16)
		for j := range x { x[j] = in[i+j] ^ cprev[j] }
		c.Encrypt(x, x)
		for j := range x { x[j] ^= pprev[j] }
		copy(out[i:], x)
		cprev, pprev = out[i:i+16], in[i:i+16]
	}
	return out
}

func igeDecrypt(key, iv, in []byte) []byte {
	c, _ := aes.NewCipher(key)
	out := make([]byte, len(in))
	cprev, pprev := iv[:16], iv[16:]
	for i := 0; i < len(in); i += 16 {
		x := make([]byte, 16)
		for j := range x { x[j] = in[i+j] ^ pprev[j] }
		c.Decrypt(x, x)
		for j := range x { x[j] ^= cprev[j] }
		copy(out[i:], x)
		cprev, pprev = in[i:i+16], out[i:i+16]
	}
	return out
}

var dhPrime, _ = new(big.Int).SetString("c71caeb9c6b1c9048e6c522f70f13f73980d40238e3e21c14934d037563d930f48198a0aa7c14058229493d22530f4dbfa336f6e0ac925139543aed44cce7c3720fd51f69458705ac68cd4fe6b6b13abdc9746512969328454f18faf8c595f642477fe96bb2a941d5bcd1d4ac8cc49880708fa9b378e3c4f3a9060bee67cf9a4a4a695811051907e162753b56b0f6b410dba74d8a84b2a14b3144e0ef1284754fd17ed950d5965b4b9dd46582db1178d169c6bc465b0d6ff9ca3928fef5b9ae4e418fc15e83ebea0f87fa9ff5eed70050ded2849f47bf959d956850ce929851f0d8115f635b105ee2e4e15d04b2454bf6f4fadf034b10403119cd8e3b92fcc5b", 16)

type fakeServer struct {
	t           *testing.T
	m           *MTProto
	priv        *rsa.PrivateKey
	serverNonce []byte // 16 bytes, chosen by the test
	padLen      int    // padding the server adds to the DH answer (0..15)
	newNonce    []byte
	a           *big.Int
	authKey     []byte
	salt        int64
	fail        error
}

func rsaFingerprint(pub *rsa.PublicKey) int64 {
	var buf bytes.Buffer
	e := tl.NewEncoder(&buf)
	e.PutMessage(pub.N.Bytes())
	e.PutMessage(big.NewInt(int64(pub.E)).Bytes())
	return int64(binary.LittleEndian.Uint64(sha(buf.Bytes())[12:]))
}

func (s *fakeServer) tempKeys() (key, iv []byte) {
	h1 := sha(s.newNonce, s.serverNonce)
	h2 := sha(s.serverNonce, s.newNonce)
	h3 := sha(s.newNonce, s.newNonce)
	key = append(append([]byte{}, h1...), h2[:12]...)
	iv = append(append(append([]byte{}, h2[12:20]...), h3...), s.newNonce[:4]...)
	return
}

func (s *fakeServer) Close() error { return nil }
func (s *fakeServer) ReadMsg() (messages.Common, error) { select {} }

func (s *fakeServer) reply(o tl.Object) {
	b, err := tl.Marshal(o)
	if err != nil { s.fail = err; return }
	back, err := tl.DecodeUnknownObject(b)
	if err != nil { s.fail = err; return }
	go func() { s.m.serviceChannel <- back }()
}

func (s *fakeServer) WriteMsg(msg messages.Common, _ bool) error {
	req, err := tl.DecodeUnknownObject(msg.GetMsg())
	if err != nil { return err }
	switch r := req.(type) {
	case *objects.ReqPQParams:
		sn := &tl.Int128{Int: new(big.Int).SetBytes(s.serverNonce)}
		s.reply(&objects.ResPQ{Nonce: r.Nonce, ServerNonce: sn, Pq: big.NewInt(0x17ED48941A08F981).Bytes(), Fingerprints: []int64{rsaFingerprint(&s.priv.PublicKey)}})
	case *objects.ReqDHParamsParams:
		if len(r.EncryptedData) != 256 { s.fail = fmt.Errorf("encrypted_data is %d bytes", len(r.EncryptedData)); return s.fail }
		c := new(big.Int).SetBytes(r.EncryptedData)
		plain := fixed(new(big.Int).Exp(c, s.priv.D, s.priv.N), 255)
		inner, err := tl.DecodeUnknownObject(plain[20:])
		if err != nil { s.fail = fmt.Errorf("server cannot read p_q_inner_data: %v", err); return s.fail }
		pq := inner.(*objects.PQInnerData)
		s.newNonce = fixed(pq.NewNonce.Int, 32)
		s.a, _ = rand.Int(rand.Reader, new(big.Int).Lsh(big.NewInt(1), 2040))
		ga := new(big.Int).Exp(big.NewInt(3), s.a, dhPrime)
		answer, _ := tl.Marshal(&objects.ServerDHInnerData{Nonce: r.Nonce, ServerNonce: r.ServerNonce, G: 3, DhPrime: dhPrime.Bytes(), GA: ga.Bytes(), ServerTime: 1})
		// the server pads with exactly the minimum (0..15): a conformant peer
		pad := (16 - (20+len(answer))%16) % 16
		withHash := append(append(sha(answer), answer...), make([]byte, pad)...)
		s.padLen = pad
		k, iv := s.tempKeys()
		s.reply(&objects.ServerDHParamsOk{Nonce: r.Nonce, ServerNonce: r.ServerNonce, EncryptedAnswer: igeEncrypt(k, iv, withHash)})
	case *objects.SetClientDHParamsParams:
		k, iv := s.tempKeys()
		if len(r.EncryptedData)%16 != 0 { s.fail = fmt.Errorf("bad length"); return s.fail }
		plain := igeDecrypt(k, iv, r.EncryptedData)
		var inner tl.Object
		ok := false
		for cut := 0; cut < 16 && !ok; cut++ { // 0..15 bytes of padding, per spec
			cand := plain[20 : len(plain)-cut]
			if bytes.Equal(sha(cand), plain[:20]) {
				inner, err = tl.DecodeUnknownObject(cand)
				ok = err == nil
			}
		}
		if !ok { s.fail = fmt.Errorf("server cannot open client_DH_inner_data (padding outside 0..15 or wrong temp keys)"); return s.fail }
		gb := new(big.Int).SetBytes(inner.(*objects.ClientDHInnerData).GB)
		s.authKey = fixed(new(big.Int).Exp(gb, s.a, dhPrime), 256)
		aux := sha(s.authKey)[:8]
		h1 := sha(s.newNonce, []byte{1}, aux)[4:20]
		salt := make([]byte, 8)
		for i := range salt { salt[i] = s.newNonce[i] ^ s.serverNonce[i] }
		s.salt = int64(binary.LittleEndian.Uint64(salt))
		s.reply(&objects.DHGenOk{Nonce: r.Nonce, ServerNonce: r.ServerNonce, NewNonceHash1: &tl.Int128{Int: new(big.Int).SetBytes(h1)}})
	default:
		return fmt.Errorf("unexpected request %T", req)
	}
	return nil
}

var testKey *rsa.PrivateKey

func runHandshake(t *testing.T, serverNonce []byte) (err error, srv *fakeServer, m *MTProto) {
	if testKey == nil {
		testKey, _ = rsa.GenerateKey(rand.Reader, 2048)
	}
	store := &memStore{}
	m = &MTProto{tokensStorage: store, serviceChannel: make(chan tl.Object), publicKey: &testKey.PublicKey,
		responseChannels: utils.NewSyncIntObjectChan(), expectedTypes: utils.NewSyncIntReflectTypes(), sessionId: 1}
	srv = &fakeServer{t: t, m: m, priv: testKey, serverNonce: serverNonce}
	m.transport = srv
	func() {
		defer func() {
			if e := recover(); e != nil { err = fmt.Errorf("panic: %v", e) }
		}()
		err = m.makeAuthKey()
	}()
	if err == nil && srv.fail != nil { err = srv.fail }
	if err == nil {
		switch {
		case !bytes.Equal(m.authKey, srv.authKey):
			err = fmt.Errorf("auth keys differ: client %d bytes, server 256 bytes", len(m.authKey))
		case m.serverSalt != srv.salt:
			err = fmt.Errorf("salts differ")
		case store.s == nil:
			err = fmt.Errorf("session not stored")
		}
	}
	return
}

// server_nonce beginning with a zero byte: a value a conformant server draws once in 256 exchanges.
func TestReproC06ServerNonceLeadingZero(t *testing.T) {
	sn := make([]byte, 16)
	rand.Read(sn)
	sn[0] = 0
	if err, _, _ := runHandshake(t, sn); err != nil {
		t.Fatalf("key exchange with server_nonce=%x failed: %v", sn, err)
	}
}

// random exchanges: success must not depend on the values drawn (new_nonce, RSA result, g^ab, hash starting with 00;
// (20+len) mod 16 == 0 payloads).
func TestReproC06RandomExchanges(t *testing.T) {
	fails := 0
	var first error
	n := 150
	for i := 0; i < n; i++ {
		sn := make([]byte, 16)
		rand.Read(sn)
		sn[0] |= 0x80
		if err, _, _ := runHandshake(t, sn); err != nil {
			fails++
			if first == nil { first = err }
		}
	}
	if fails > 0 {
		t.Fatalf("%d of %d key exchanges with a conformant server failed; first: %v", fails, n, first)
	}
}
