package deeplinks

import (
	"fmt"
	"testing"
)

// C20: resolving any string never panics; a bare host is an error.
func TestReproC20BareHost(t *testing.T) {
	for _, link := range []string{"t.me", "t.me?x=1", "telegram.me#frag", "example.org"} {
		err := func() (err error) {
			defer func() {
				if e := recover(); e != nil {
					err = fmt.Errorf("PANIC: %v", e)
				}
			}()
			_, err = Resolve(link)
			return
		}()
		if err == nil {
			t.Errorf("Resolve(%q): a bare host resolved to something", link)
		} else if len(err.Error()) > 5 && err.Error()[:5] == "PANIC" {
			t.Errorf("Resolve(%q): %v", link, err)
		}
	}
	// scheme-less links with a path keep working
	if d, err := Resolve("t.me/SomeUser"); err != nil || d.(*ResolveParameters).Domain != "someuser" {
		t.Errorf("Resolve(t.me/SomeUser) = %v, %v", d, err)
	}
}
