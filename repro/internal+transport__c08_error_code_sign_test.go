package transport

import (
	"bytes"
	"testing"

	"github.com/xelaj/mtproto/internal/mode"
)

type rw struct{ bytes.Buffer }

// C08: a 4-byte frame carries a signed transport error code, e.g. -404.
func TestReproC08ErrorCodeSign(t *testing.T) {
	conn := &rw{}
	conn.Write([]byte{4, 0, 0, 0, 0x6c, 0xfe, 0xff, 0xff}) // intermediate frame: length 4, payload int32(-404)
	m, err := mode.New(mode.Intermediate, &rw{})
	if err != nil {
		t.Fatal(err)
	}
	_ = m
	m2, _ := mode.New(mode.Intermediate, conn)
	conn.Next(4) // drop the announcement that New wrote after our frame? (Buffer is FIFO: frame first, then announcement)
	_ = m2
	tr := &transport{mode: m2}
	conn.Reset()
	conn.Write([]byte{4, 0, 0, 0, 0x6c, 0xfe, 0xff, 0xff})
	_, err = tr.ReadMsg()
	code, ok := err.(ErrCode)
	if !ok {
		t.Fatalf("expected ErrCode, got %v", err)
	}
	if int(code) != -404 {
		t.Fatalf("frame 6c fe ff ff surfaced as code %d, want -404", int(code))
	}
}
