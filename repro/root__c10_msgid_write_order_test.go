package mtproto

import (
	"sync"
	"testing"

	"github.com/xelaj/mtproto/internal/mtproto/messages"
	"github.com/xelaj/mtproto/internal/mtproto/objects"
	"github.com/xelaj/mtproto/internal/utils"
)

type recordingTransport struct {
	mu  sync.Mutex
	ids []int
}

func (r *recordingTransport) Close() error                          { return nil }
func (r *recordingTransport) ReadMsg() (messages.Common, error)     { select {} }
func (r *recordingTransport) WriteMsg(m messages.Common, _ bool) error {
	r.mu.Lock()
	r.ids = append(r.ids, m.GetMsgID())
	r.mu.Unlock()
	return nil
}

// C10: msg_ids strictly increase in the order the messages are written, whatever the interleaving of callers.
func TestReproC10MsgIDWriteOrder(t *testing.T) {
	rec := &recordingTransport{}
	m := &MTProto{transport: rec, encrypted: true, responseChannels: utils.NewSyncIntObjectChan(), expectedTypes: utils.NewSyncIntReflectTypes()}
	var wg sync.WaitGroup
	for g := 0; g < 8; g++ {
		wg.Add(1)
		go func() {
			defer wg.Done()
			for i := 0; i < 400; i++ {
				if _, err := m.sendPacket(&objects.MsgsAck{MsgIDs: []int64{1}}); err != nil {
					t.Error(err)
				}
			}
		}()
	}
	wg.Wait()
	inv := 0
	for i := 1; i < len(rec.ids); i++ {
		if rec.ids[i] <= rec.ids[i-1] {
			inv++
		}
	}
	if inv > 0 {
		t.Fatalf("%d of %d messages were written with a msg_id not greater than the previous one", inv, len(rec.ids))
	}
}
