package objects

import (
	"encoding/binary"
	"fmt"
	"testing"

	"github.com/xelaj/mtproto/internal/encoding/tl"
)

// C15 / C16: msg_copy#e06046b2 is a registered constructor whose field OrigMessage is *Message, a plain struct
// that is neither a tl.Object nor an Unmarshaler.  decodeValueGeneral records an error for the struct kind, but
// decodeValue goes on into its kind switch and ends in panic("неизвестная штука: objects.Message").
func TestReproC15MsgCopyPanics(t *testing.T) {
	b := make([]byte, 4)
	binary.LittleEndian.PutUint32(b, 0xe06046b2)
	b = append(b, make([]byte, 64)...)
	err := func() (err error) {
		defer func() {
			if e := recover(); e != nil {
				err = fmt.Errorf("PANIC: %v", e)
			}
		}()
		_, derr := tl.DecodeUnknownObject(b)
		if derr == nil {
			return fmt.Errorf("no error for an undecodable msg_copy")
		}
		return nil
	}()
	if err != nil {
		t.Error(err)
	}
}
