package session

import (
	"os"
	"testing"
)

// C12: a session path without a directory component ("session.json") must be storable in the current directory.
func TestReproC12BareFilename(t *testing.T) {
	dir := t.TempDir()
	wd, _ := os.Getwd()
	defer os.Chdir(wd)
	os.Chdir(dir)
	l := NewFromFile("bare.json")
	if err := l.Store(&Session{Key: []byte{1}, Hash: []byte{2}, Salt: 3, Hostname: "h"}); err != nil {
		t.Fatalf("Store on a bare file name: %v", err)
	}
	s, err := NewFromFile("bare.json").Load()
	if err != nil || s.Salt != 3 {
		t.Fatalf("Load: %v %v", s, err)
	}
}
