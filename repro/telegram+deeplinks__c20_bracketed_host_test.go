package deeplinks

import "testing"

// C20: "anything else (a foreign host ...) is an error" - the quantifier names look-alike hosts.  url.Parse accepts
// a bracketed host that is not an IPv6 address, and Hostname() strips the brackets, so "[t.me]" passed for t.me.
func TestReproC20BracketedLookAlikeHost(t *testing.T) {
	for _, l := range []string{"http://[t.me]/durov", "http://[t.me]:443/durov", "https://[telegram.me]/joinchat/abc"} {
		if r, err := Resolve(l); err == nil {
			t.Errorf("%s resolved to %#v", l, r)
		}
	}
	if _, err := Resolve("https://t.me:443/durov"); err != nil {
		t.Errorf("control: %v", err)
	}
}
