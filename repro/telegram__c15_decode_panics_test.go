package telegram

import (
	"encoding/binary"
	"fmt"
	"testing"

	"github.com/xelaj/mtproto/internal/encoding/tl"
)

func le32(ws ...uint32) []byte {
	var b []byte
	for _, w := range ws {
		b = binary.LittleEndian.AppendUint32(b, w)
	}
	return b
}

func decodeNoPanic(b []byte) (err error) {
	defer func() {
		if e := recover(); e != nil {
			err = fmt.Errorf("PANIC: %v", e)
		}
	}()
	_, err = tl.DecodeUnknownObject(b)
	return
}

func TestReproC15EnumAndInterface(t *testing.T) {
	// a bare enum constructor id (baseThemeDay) as the whole message
	if err := decodeNoPanic(le32(uint32(BaseThemeDay))); err != nil {
		t.Errorf("enum id as an object: %v", err)
	}
	// inputPeerUserFromMessage#17bae2e6 peer:InputPeer … with an InputUser constructor (inputUserSelf#f7c1b13f) where an InputPeer belongs
	err := decodeNoPanic(le32(0x17bae2e6, 0xf7c1b13f, 1, 2))
	if err == nil {
		t.Errorf("an InputUser was accepted in an InputPeer field")
	} else if err.Error()[:5] == "PANIC" {
		t.Errorf("wrong constructor inside an interface field: %v", err)
	}
}
