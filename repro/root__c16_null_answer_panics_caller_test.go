package mtproto

import (
	"fmt"
	"sync"
	"testing"
	"time"

	"github.com/xelaj/mtproto/internal/encoding/tl"
	"github.com/xelaj/mtproto/internal/mtproto/messages"
	"github.com/xelaj/mtproto/internal/mtproto/objects"
	"github.com/xelaj/mtproto/internal/utils"
)

// C16: "No message a server can send ... terminates the client process."  The keep-alive goroutine calls
// objects.Ping; when the server answers the ping with rpc_result{null} (null#56730bcc is an ordinary API
// constructor), makeRequest unwraps it to an untyped nil and the typed helper builds its error text with
// reflect.TypeOf(nil).String(): a nil dereference in a goroutine nobody recovers - the process dies.

type nullAnswerTransport struct {
	mu   sync.Mutex
	sent []int64
	in   chan messages.Common
}

func (t *nullAnswerTransport) Close() error { return nil }
func (t *nullAnswerTransport) WriteMsg(m messages.Common, _ bool) error {
	if e, ok := m.(*messages.Encrypted); ok {
		body, _ := tl.Marshal(&objects.RpcResult{ReqMsgID: e.MsgID, Obj: &tl.PseudoNil{}})
		t.in <- &messages.Encrypted{Msg: body, MsgID: e.MsgID + 1}
	}
	return nil
}
func (t *nullAnswerTransport) ReadMsg() (messages.Common, error) { return <-t.in, nil }

func TestReproC16NullAnswerToPing(t *testing.T) {
	tr := &nullAnswerTransport{in: make(chan messages.Common, 4)}
	m := &MTProto{transport: tr, encrypted: true, responseChannels: utils.NewSyncIntObjectChan(), expectedTypes: utils.NewSyncIntReflectTypes()}
	go func() {
		for i := 0; i < 2; i++ { // the answer and the acknowledgement traffic
			_ = m.readMsg()
		}
	}()
	done := make(chan error, 1)
	go func() {
		defer func() {
			if e := recover(); e != nil {
				done <- fmt.Errorf("PANIC in the calling goroutine (the keep-alive pinger in production): %v", e)
			}
		}()
		_, err := objects.Ping(m, 7)
		if err == nil {
			done <- fmt.Errorf("a null answer to ping was accepted as a pong")
			return
		}
		done <- nil
	}()
	select {
	case err := <-done:
		if err != nil {
			t.Fatal(err)
		}
	case <-time.After(5 * time.Second):
		t.Fatal("the call never returned")
	}
}
