package objects_test

import (
	"encoding/binary"
	"fmt"
	"testing"

	"github.com/xelaj/mtproto/internal/encoding/tl"
	_ "github.com/xelaj/mtproto/internal/mtproto/objects"
)

func le(ws ...uint32) []byte {
	var b []byte
	for _, w := range ws {
		b = binary.LittleEndian.AppendUint32(b, w)
	}
	return b
}

func dec(b []byte) (err error) {
	defer func() {
		if e := recover(); e != nil {
			err = fmt.Errorf("PANIC: %v", e)
		}
	}()
	_, err = tl.DecodeUnknownObject(b)
	return
}

// C15: arbitrary bytes must end in a value or an error.
func TestReproC15ContainerSizes(t *testing.T) {
	cases := map[string][]byte{
		"container with count -1":        le(0x73f1f8dc, 0xffffffff),
		"container with count 2^31-1":    le(0x73f1f8dc, 0x7fffffff),
		"container message with size -1": le(0x73f1f8dc, 1, 1, 0, 1, 0xffffffff),
		"vector count 2^32-1 in msgs_ack": le(0x62d6b459, 0x1cb5c415, 0xffffffff),
	}
	for name, b := range cases {
		if err := dec(b); err != nil && len(err.Error()) > 5 && err.Error()[:5] == "PANIC" {
			t.Errorf("%s: %v", name, err)
		}
	}
}
