package math

import (
	"math/big"
	"math/rand"
	"testing"
	"time"
)

// C19: the DH exponent b is big.Int.Rand of a generator seeded with the wall clock: anyone who knows the
// time of the call to within a window recovers b by enumeration.
func TestReproC19ExponentFromClock(t *testing.T) {
	p, _ := new(big.Int).SetString("c71caeb9c6b1c9048e6c522f70f13f73980d40238e3e21c14934d037563d930f48198a0aa7c14058229493d22530f4dbfa336f6e0ac925139543aed44cce7c3720fd51f69458705ac68cd4fe6b6b13abdc9746512969328454f18faf8c595f642477fe96bb2a941d5bcd1d4ac8cc49880708fa9b378e3c4f3a9060bee67cf9a4a4a695811051907e162753b56b0f6b410dba74d8a84b2a14b3144e0ef1284754fd17ed950d5965b4b9dd46582db1178d169c6bc465b0d6ff9ca3928fef5b9ae4e418fc15e83ebea0f87fa9ff5eed70050ded2849f47bf959d956850ce929851f0d8115f635b105ee2e4e15d04b2454bf6f4fadf034b10403119cd8e3b92fcc5b", 16)
	t0 := time.Now().UnixNano()
	b, _, _ := MakeGAB(3, big.NewInt(5), p)
	t1 := time.Now().UnixNano()
	rndmax := big.NewInt(0).SetBit(big.NewInt(0), 2048, 1)
	// the seed is taken on entry, before the two modular exponentiations
	if t1 > t0+200_000 {
		t1 = t0 + 200_000
	}
	for s := t0; s <= t1; s++ {
		if big.NewInt(0).Rand(rand.New(rand.NewSource(s)), rndmax).Cmp(b) == 0 {
			t.Fatalf("DH exponent recovered from the clock: seed %d (window %d ns)", s, t1-t0)
		}
	}
}
