package mtproto

import (
	"bytes"
	"crypto/rand"
	"crypto/rsa"
	"crypto/sha1"
	"encoding/binary"
	"fmt"
	"math/big"
	"testing"
	"time"

	"github.com/xelaj/mtproto/internal/encoding/tl"
	"github.com/xelaj/mtproto/internal/mtproto/messages"
	"github.com/xelaj/mtproto/internal/mtproto/objects"
	"github.com/xelaj/mtproto/internal/utils"
)

// C07: "every reply field of resPQ ... x every corruption (bit flip ..., substitution ... by zero)": the exchange
// has to be abandoned with an error.  With pq = 0 makeAuthKey panics (division by zero in SplitPQ), with a prime
// pq (one flipped bit can make it prime) it never returns.

type pqServer struct {
	m   *MTProto
	pq  []byte
	pub *rsa.PublicKey
}

func (s *pqServer) Close() error                      { return nil }
func (s *pqServer) ReadMsg() (messages.Common, error) { select {} }
func (s *pqServer) WriteMsg(msg messages.Common, _ bool) error {
	req, err := tl.DecodeUnknownObject(msg.GetMsg())
	if err != nil {
		return err
	}
	if r, ok := req.(*objects.ReqPQParams); ok {
		var buf bytes.Buffer
		e := tl.NewEncoder(&buf)
		e.PutMessage(s.pub.N.Bytes())
		e.PutMessage(big.NewInt(int64(s.pub.E)).Bytes())
		h := sha1.Sum(buf.Bytes())
		fp := int64(binary.LittleEndian.Uint64(h[12:]))
		sn := make([]byte, 16)
		_, _ = rand.Read(sn)
		b, _ := tl.Marshal(&objects.ResPQ{Nonce: r.Nonce, ServerNonce: &tl.Int128{Int: new(big.Int).SetBytes(sn)}, Pq: s.pq, Fingerprints: []int64{fp}})
		back, _ := tl.DecodeUnknownObject(b)
		go func() { s.m.serviceChannel <- back }()
	}
	return nil
}

func exchangeWithPQ(pq []byte) error {
	key, _ := rsa.GenerateKey(rand.Reader, 2048)
	m := &MTProto{serviceChannel: make(chan tl.Object), publicKey: &key.PublicKey,
		responseChannels: utils.NewSyncIntObjectChan(), expectedTypes: utils.NewSyncIntReflectTypes(), sessionId: 1}
	m.transport = &pqServer{m: m, pq: pq, pub: &key.PublicKey}
	done := make(chan error, 1)
	go func() {
		defer func() {
			if e := recover(); e != nil {
				done <- fmt.Errorf("PANIC instead of an error: %v", e)
			}
		}()
		if err := m.makeAuthKey(); err == nil {
			done <- fmt.Errorf("the exchange went on")
		} else {
			done <- nil // abandoned with an error: what the property asks for
		}
	}()
	select {
	case err := <-done:
		return err
	case <-time.After(4 * time.Second):
		return fmt.Errorf("makeAuthKey did not return: the exchange hangs instead of being abandoned")
	}
}

func TestReproC07PQZero(t *testing.T) {
	if err := exchangeWithPQ([]byte{0, 0, 0, 0, 0, 0, 0, 0}); err != nil {
		t.Fatal(err)
	}
}

func TestReproC07PQPrime(t *testing.T) {
	p := new(big.Int).Sub(new(big.Int).Lsh(big.NewInt(1), 61), big.NewInt(1)) // 2^61-1
	if err := exchangeWithPQ(p.Bytes()); err != nil {
		t.Fatal(err)
	}
}
