package mtproto

import (
	"fmt"
	"testing"

	"github.com/xelaj/mtproto/internal/mtproto/objects"
)

// C17 / C16: the literal text "PHONE_MIGRATE_X" (and any PHONE_MIGRATE_ text whose parameter is not a number and
// happens to spell the native name) reaches tryToProcessErr with no parameter; the unchecked assertion
// e.AdditionalInfo.(int) panics in the caller's goroutine.
func TestReproC17PhoneMigrateLiteral(t *testing.T) {
	m := &MTProto{dclist: map[int]string{2: "127.0.0.1:1"}}
	err := func() (err error) {
		defer func() {
			if e := recover(); e != nil {
				err = fmt.Errorf("PANIC: %v", e)
			}
		}()
		e := RpcErrorToNative(&objects.RpcError{ErrorCode: 303, ErrorMessage: "PHONE_MIGRATE_X"}).(*ErrResponseCode)
		got := m.tryToProcessErr(e)
		if got == nil {
			return fmt.Errorf("no error returned for an unusable migrate target")
		}
		return nil
	}()
	if err != nil {
		t.Error(err)
	}
}
