package mtproto

import (
	"reflect"
	"testing"
	"time"

	"github.com/xelaj/mtproto/internal/encoding/tl"
	"github.com/xelaj/mtproto/internal/mtproto/messages"
	"github.com/xelaj/mtproto/internal/mtproto/objects"
	"github.com/xelaj/mtproto/internal/session"
	"github.com/xelaj/mtproto/internal/utils"
)

type sentRecorder struct{ sent []messages.Common }

func (s *sentRecorder) Close() error                            { return nil }
func (s *sentRecorder) ReadMsg() (messages.Common, error)       { select {} }
func (s *sentRecorder) WriteMsg(m messages.Common, _ bool) error { s.sent = append(s.sent, m); return nil }

type okStore struct{}

func (okStore) Load() (*session.Session, error) { return nil, nil }
func (okStore) Store(*session.Session) error    { return nil }

func newClient() (*MTProto, *sentRecorder) {
	rec := &sentRecorder{}
	return &MTProto{transport: rec, encrypted: true, tokensStorage: okStore{},
		responseChannels: utils.NewSyncIntObjectChan(), expectedTypes: utils.NewSyncIntReflectTypes()}, rec
}

// C09: a call that declares a vector result receives the typed slice.
func TestReproC09VectorHintNeverFound(t *testing.T) {
	m, rec := newClient()
	done := make(chan interface{}, 1)
	go func() {
		res, err := m.MakeRequestWithHintToDecoder(&objects.PingParams{PingID: 1}, reflect.TypeOf([]int64{}))
		if err != nil {
			done <- err
			return
		}
		done <- res
	}()
	for len(rec.sent) == 0 {
		time.Sleep(time.Millisecond)
	}
	reqID := rec.sent[0].GetMsgID()
	// rpc_result#f35c6d01 req_msg_id:long result:Vector<long> = [7, 8]
	e := tl.NewEncoder(nil)
	_ = e
	body := append([]byte{0x01, 0x6d, 0x5c, 0xf3}, make([]byte, 8)...)
	for i := 0; i < 8; i++ {
		body[4+i] = byte(uint64(reqID) >> (8 * i))
	}
	body = append(body, 0x15, 0xc4, 0xb5, 0x1c, 2, 0, 0, 0, 7, 0, 0, 0, 0, 0, 0, 0, 8, 0, 0, 0, 0, 0, 0, 0)
	err := m.processResponse(&messages.Encrypted{Msg: body, MsgID: int64(reqID) + 1, SeqNo: 0})
	if err != nil {
		t.Fatalf("the server's answer to a hinted request cannot be processed: %v", err)
	}
	select {
	case r := <-done:
		if s, ok := r.([]int64); !ok || len(s) != 2 {
			t.Fatalf("caller received %#v", r)
		}
	case <-time.After(time.Second):
		t.Fatal("caller never answered")
	}
}

// C11: only the rejected request is re-sent, and a second rotation does not stall the loop.
func TestReproC11SaltRotation(t *testing.T) {
	m, rec := newClient()
	for i := 0; i < 2; i++ {
		go m.MakeRequest(&objects.PingParams{PingID: int64(i)})
	}
	for len(rec.sent) < 2 {
		time.Sleep(time.Millisecond)
	}
	time.Sleep(10 * time.Millisecond)
	rejected := rec.sent[1].GetMsgID()
	salt := func(newSalt int64) []byte {
		b, _ := tl.Marshal(&objects.BadServerSalt{BadMsgID: int64(rejected), BadMsgSeqNo: 3, ErrorCode: 48, NewSalt: newSalt})
		return b
	}
	if err := m.processResponse(&messages.Encrypted{Msg: salt(11), MsgID: 5, SeqNo: 0}); err != nil {
		t.Fatal(err)
	}
	time.Sleep(50 * time.Millisecond)
	if n := len(rec.sent) - 2; n != 1 {
		t.Errorf("after one bad_server_salt naming one request, %d requests were re-sent (want 1: the accepted one must not be sent twice)", n)
	}
	if n := len(m.responseChannels.Keys()); n != 2 {
		t.Errorf("%d entries in the waiter table for 2 pending requests (stale entries)", n)
	}
	stalled := make(chan error, 1)
	go func() { stalled <- m.processResponse(&messages.Encrypted{Msg: salt(12), MsgID: 9, SeqNo: 0}) }()
	select {
	case <-stalled:
	case <-time.After(2 * time.Second):
		t.Errorf("the second bad_server_salt blocks processResponse (receive loop stalls)")
	}
}

// C09/C11: requests of the key exchange register the shared service channel and leave it in the table;
// the first salt rotation of the freshly keyed session then sends its marker to a channel nobody reads.
func TestReproC09SharedServiceChannelStalls(t *testing.T) {
	m, _ := newClient()
	m.serviceChannel = make(chan tl.Object)
	m.serviceModeActivated = true
	if _, err := m.sendPacket(&objects.ReqPQParams{Nonce: tl.RandomInt128()}); err != nil {
		t.Fatal(err)
	}
	m.serviceModeActivated = false
	if n := len(m.responseChannels.Keys()); n != 0 {
		t.Errorf("%d entry left in the waiter table after a key-exchange request (it maps to the shared service channel)", n)
	}
	b, _ := tl.Marshal(&objects.BadServerSalt{BadMsgID: 1, BadMsgSeqNo: 3, ErrorCode: 48, NewSalt: 5})
	stalled := make(chan error, 1)
	go func() { stalled <- m.processResponse(&messages.Encrypted{Msg: b, MsgID: 5, SeqNo: 0}) }()
	select {
	case <-stalled:
	case <-time.After(2 * time.Second):
		t.Errorf("bad_server_salt after a key exchange blocks processResponse: the marker is sent to the service channel")
	}
}
