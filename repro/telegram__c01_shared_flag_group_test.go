package telegram

import (
	"reflect"
	"testing"

	"github.com/xelaj/mtproto/internal/encoding/tl"
)

// C01: fields sharing a flag bit form one group: present iff any member is non-zero, and then every member is on the wire.
func TestReproC01SharedFlagGroup(t *testing.T) {
	in := &InputThemeSettings{BaseTheme: BaseThemeDay, AccentColor: 1, MessageTopColor: 5, MessageBottomColor: 0}
	b, err := tl.Marshal(in)
	if err != nil {
		t.Fatal(err)
	}
	out, err := tl.DecodeUnknownObject(b)
	if err != nil {
		t.Fatalf("decoding the library's own encoding of %+v (%d bytes): %v", *in, len(b), err)
	}
	if !reflect.DeepEqual(in, out) {
		t.Fatalf("round trip changed the value: %+v -> %+v", in, out)
	}
}
