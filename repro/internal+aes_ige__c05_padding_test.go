package ige

import (
	"bytes"
	"crypto/sha1"
	"fmt"
	"math/big"
	"testing"
)

func fullNonce(n int) *big.Int {
	b := make([]byte, n)
	for i := range b {
		b[i] = byte(0x81 + i)
	}
	return new(big.Int).SetBytes(b)
}

func try(f func() []byte) (out []byte, err error) {
	defer func() {
		if e := recover(); e != nil {
			err = fmt.Errorf("panic: %v", e)
		}
	}()
	return f(), nil
}

// C05: payloads with (20+len) % 16 == 0: the client's own round trip, and what a conformant peer sends
// (no padding at all), must be recovered.
func TestReproC05AlignedPayloads(t *testing.T) {
	n2, n1 := fullNonce(32), fullNonce(16)
	for _, l := range []int{12, 28, 44} {
		payload := bytes.Repeat([]byte{0xAB}, l)
		// own round trip
		got, err := try(func() []byte { return DecryptMessageWithTempKeys(EncryptMessageWithTempKeys(payload, n2, n1), n2, n1) })
		if err != nil || !bytes.Equal(got, payload) {
			t.Errorf("own round trip of a %d-byte payload: %v (got %d bytes)", l, err, len(got))
		}
		// conformant peer: SHA1 + payload, zero padding bytes
		h := sha1.Sum(payload)
		sealed := encryptMessageWithTempKeys(append(h[:], payload...), n2, n1)
		got, err = try(func() []byte { return DecryptMessageWithTempKeys(sealed, n2, n1) })
		if err != nil || !bytes.Equal(got, payload) {
			t.Errorf("peer message with 0 padding bytes, %d-byte payload: %v", l, err)
		}
	}
	// the wrapper must add 0..15 bytes
	for l := 0; l < 48; l++ {
		if pad := len(EncryptMessageWithTempKeys(make([]byte, l), n2, n1)) - 20 - l; pad < 0 || pad > 15 {
			t.Errorf("payload of %d bytes is padded with %d bytes (want 0..15)", l, pad)
		}
	}
}

// a 16-byte answer passes the length validation and must not crash the prefix split
func TestReproC05ShortAnswer(t *testing.T) {
	_, err := try(func() []byte { return DecryptMessageWithTempKeys(make([]byte, 16), fullNonce(32), fullNonce(16)) })
	if err != nil && !bytes.Contains([]byte(err.Error()), []byte("couldn't trim")) {
		t.Errorf("16-byte answer: %v", err)
	}
}
