package objects

import (
	"encoding/binary"
	"os"
	"os/exec"
	"strings"
	"testing"

	"github.com/xelaj/mtproto/internal/encoding/tl"
)

// rpc_result#f35c6d01 req_msg_id:long result:Object nests at 12 bytes a level.
func nested(levels int) []byte {
	b := make([]byte, 0, levels*12+4)
	for i := 0; i < levels; i++ {
		b = binary.LittleEndian.AppendUint32(b, 0xf35c6d01)
		b = binary.LittleEndian.AppendUint64(b, uint64(i))
	}
	return binary.LittleEndian.AppendUint32(b, 0x56730bcc) // null
}

func TestReproC15DeepNesting(t *testing.T) {
	if os.Getenv("DEPTH_CHILD") != "" {
		_, err := tl.DecodeUnknownObject(nested(6000000))
		t.Logf("child: err=%v", err)
		return
	}
	cmd := exec.Command(os.Args[0], "-test.run", "TestReproC15DeepNesting", "-test.v")
	cmd.Env = append(os.Environ(), "DEPTH_CHILD=1")
	out, err := cmd.CombinedOutput()
	s := string(out)
	if err != nil {
		i := strings.Index(s, "fatal error")
		if i < 0 {
			i = 0
		}
		end := i + 200
		if end > len(s) {
			end = len(s)
		}
		t.Fatalf("decoding 72 MB of nested rpc_result killed the process: %v: %s", err, s[i:end])
	}
}
