package srp

import (
	"bytes"
	"math/rand"
	"testing"
)

func TestReproC19SrpEphemeralPredictable(t *testing.T) {
	p := make([]byte, 256)
	for i := range p {
		p[i] = 0xff
	}
	b := make([]byte, 256)
	b[0] = 0x7f
	mp := &ModPow{Salt1: []byte("s1"), Salt2: []byte("s2"), G: 3, P: p}
	rand.Seed(7)
	a1, err := GetInputCheckPassword("pw", b, mp)
	if err != nil {
		t.Skip(err)
	}
	rand.Seed(7)
	a2, _ := GetInputCheckPassword("pw", b, mp)
	if bytes.Equal(a1.GA, a2.GA) {
		t.Fatalf("SRP ephemeral g^a is reproducible from the math/rand seed")
	}
}
