package mtproto

import (
	"encoding/binary"
	"fmt"
	"testing"

	"github.com/xelaj/mtproto/internal/encoding/tl"
	"github.com/xelaj/mtproto/internal/mtproto/messages"
	"github.com/xelaj/mtproto/internal/mtproto/objects"
	"github.com/xelaj/mtproto/internal/session"
	"github.com/xelaj/mtproto/internal/utils"
)

type cannedTransport struct{ msgs []messages.Common }

func (c *cannedTransport) Close() error                                  { return nil }
func (c *cannedTransport) WriteMsg(messages.Common, bool) error          { return nil }
func (c *cannedTransport) ReadMsg() (m messages.Common, err error) {
	m, c.msgs = c.msgs[0], c.msgs[1:]
	return m, nil
}

func client(msgs ...messages.Common) *MTProto {
	return &MTProto{transport: &cannedTransport{msgs}, encrypted: true, tokensStorage: nil,
		responseChannels: utils.NewSyncIntObjectChan(), expectedTypes: utils.NewSyncIntReflectTypes()}
}

// C16: no message a server can send may terminate the process. The receive loop hands every error of readMsg
// other than EOF/Canceled to check(), i.e. panics; a bad_msg_notification panics outright.
func TestReproC16BadMsgNotificationPanics(t *testing.T) {
	body, _ := tl.Marshal(&objects.BadMsgNotification{BadMsgID: 1, BadMsgSeqNo: 2, Code: 16})
	m := client(&messages.Encrypted{Msg: body, MsgID: 5})
	err := func() (err error) {
		defer func() {
			if e := recover(); e != nil {
				err = fmt.Errorf("PANIC in the receive path: %v", e)
			}
		}()
		return m.readMsg()
	}()
	if err != nil {
		t.Fatal(err)
	}
}

func TestReproC16UnknownConstructorIsFatal(t *testing.T) {
	m := client(&messages.Encrypted{Msg: binary.LittleEndian.AppendUint32(nil, 0xdeadbeef), MsgID: 5})
	err := m.readMsg()
	if err != nil {
		// this is exactly what startReadingResponses does with it (mtproto.go: default: check(err))
		defer func() {
			if e := recover(); e != nil {
				t.Fatalf("an unregistered constructor id makes readMsg return %q, which the loop passes to check(): process dies", err)
			}
		}()
		check(err)
	}
}

type failingStore struct{}

func (failingStore) Load() (*session.Session, error) { return nil, nil }
func (failingStore) Store(*session.Session) error    { return fmt.Errorf("disk full") }

func TestReproC16BadServerSaltWithFailingStore(t *testing.T) {
	body, _ := tl.Marshal(&objects.BadServerSalt{BadMsgID: 1, BadMsgSeqNo: 2, ErrorCode: 48, NewSalt: 7})
	m := client(&messages.Encrypted{Msg: body, MsgID: 5})
	m.tokensStorage = failingStore{}
	err := func() (err error) {
		defer func() {
			if e := recover(); e != nil {
				err = fmt.Errorf("PANIC in the receive path: %v", e)
			}
		}()
		return m.readMsg()
	}()
	if err != nil {
		t.Fatal(err)
	}
}
