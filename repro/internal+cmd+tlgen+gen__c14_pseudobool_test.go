package gen

import (
	"io/ioutil"
	"os"
	"strings"
	"testing"

	"github.com/xelaj/mtproto/internal/cmd/tlgen/tlparser"
)

// C14: for a schema with a function returning Bool the generated package must compile.
func TestReproC14PseudoBool(t *testing.T) {
	schema, err := tlparser.ParseSchema("boolFalse#bc799737 = Bool;\nboolTrue#997275b5 = Bool;\nfoo#11111111 x:int = Foo;\n---functions---\nping.check#22222222 x:int = Bool;\n")
	if err != nil {
		t.Fatal(err)
	}
	dir, _ := ioutil.TempDir("", "gen")
	defer os.RemoveAll(dir)
	g, err := NewGenerator(schema, "", dir)
	if err != nil {
		t.Fatal(err)
	}
	if err := g.Generate(); err != nil {
		t.Fatal(err)
	}
	src, _ := ioutil.ReadFile(dir + "/methods_gen.go")
	if strings.Contains(string(src), "tl.PseudoBool") {
		t.Fatalf("generated methods_gen.go refers to tl.PseudoBool, which package tl does not define:\n%s", firstLineWith(string(src), "PseudoBool"))
	}
}

func firstLineWith(s, sub string) string {
	for _, l := range strings.Split(s, "\n") {
		if strings.Contains(l, sub) {
			return l
		}
	}
	return ""
}
