package tl

import (
	"bytes"
	"testing"
)

// C02: a byte string of 2^24 bytes does not fit the 3-byte length and must be refused, not mis-encoded.
func TestReproC02String2Pow24(t *testing.T) {
	var buf bytes.Buffer
	e := NewEncoder(&buf)
	e.PutMessage(make([]byte, 1<<24))
	if err := e.CheckErr(); err == nil {
		t.Fatalf("2^24-byte string accepted; header bytes % x (declares length %d)", buf.Bytes()[:4], int(buf.Bytes()[1])|int(buf.Bytes()[2])<<8|int(buf.Bytes()[3])<<16)
	}
	buf.Reset()
	e = NewEncoder(&buf)
	e.PutMessage(make([]byte, 1<<24-1))
	if err := e.CheckErr(); err != nil {
		t.Fatalf("2^24-1 bytes refused: %v", err)
	}
}
