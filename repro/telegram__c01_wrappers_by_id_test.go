package telegram

import (
	"reflect"
	"testing"

	"github.com/xelaj/mtproto/internal/encoding/tl"
)

// C01: the hand-written wrappers are constructors the library knows; letting the decoder choose the type from the
// constructor id must return the value that was serialised.
func TestReproC01WrappersById(t *testing.T) {
	for _, v := range []tl.Object{
		&InvokeWithLayerParams{Layer: 121, Query: &HelpGetConfigParams{}},
		&InvokeWithTakeoutParams{TakeoutID: 7, Query: &HelpGetConfigParams{}},
		&InitConnectionParams{ApiID: 1, DeviceModel: "d", SystemVersion: "s", AppVersion: "a", SystemLangCode: "en", LangCode: "en", Query: &HelpGetConfigParams{}},
	} {
		b, err := tl.Marshal(v)
		if err != nil {
			t.Fatalf("%T: %v", v, err)
		}
		got, err := tl.DecodeUnknownObject(b)
		if err != nil {
			t.Errorf("%T: decoding by constructor id: %v", v, err)
			continue
		}
		if !reflect.DeepEqual(got, v) {
			t.Errorf("%T: got %#v", v, got)
		}
	}
}
