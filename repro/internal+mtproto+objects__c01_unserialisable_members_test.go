package objects

import (
	"fmt"
	"testing"

	"github.com/xelaj/mtproto/internal/encoding/tl"
)

// C01: two registered constructors cannot make the round trip at all.
func TestReproC01GzipPackedHasNoWriter(t *testing.T) {
	err := func() (err error) {
		defer func() {
			if e := recover(); e != nil {
				err = fmt.Errorf("panic: %v", e)
			}
		}()
		_, err = tl.Marshal(&GzipPacked{Obj: &Pong{MsgID: 1, PingID: 2}})
		return
	}()
	if err != nil {
		t.Fatalf("serialising the registered constructor gzip_packed: %v", err)
	}
}

func TestReproC01MsgCopy(t *testing.T) {
	_, err := tl.Marshal(&MsgCopy{OrigMessage: &Message{MsgID: 1, SeqNo: 1, Bytes: 12, Body: &Pong{MsgID: 1, PingID: 2}}})
	if err != nil {
		t.Fatalf("serialising the registered constructor msg_copy: %v", err)
	}
}
