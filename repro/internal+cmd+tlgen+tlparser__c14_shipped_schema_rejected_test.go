package tlparser

import (
	"io/ioutil"
	"testing"
)

// C14: the schema file shipped as the generator's input must be accepted.
func TestReproC14ShippedSchemaRejected(t *testing.T) {
	b, err := ioutil.ReadFile("../../../../schemes/api_latest.tl")
	if err != nil {
		t.Skip(err)
	}
	if _, err := ParseSchema(string(b)); err != nil {
		t.Fatalf("ParseSchema(schemes/api_latest.tl): %v", err)
	}
}
