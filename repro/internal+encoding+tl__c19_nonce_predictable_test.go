package tl

import (
	"math/rand"
	"testing"
)

// C19: the key-exchange nonces come from the global math/rand source: reseeding it reproduces them.
func TestReproC19NoncePredictable(t *testing.T) {
	rand.Seed(42)
	a128, a256 := RandomInt128(), RandomInt256()
	rand.Seed(42)
	b128, b256 := RandomInt128(), RandomInt256()
	if a128.Cmp(b128.Int) == 0 || a256.Cmp(b256.Int) == 0 {
		t.Fatalf("nonces are reproducible from the math/rand seed: %x == %x", a128.Bytes(), b128.Bytes())
	}
}
