package ige

import (
	"math/big"
	"testing"
)

// C07/R07.P: a DH answer whose SHA-1 prefix matches no cut point must be an error; it panics.
func nonce(n int) *big.Int {
	b := make([]byte, n)
	for i := range b {
		b[i] = byte(0x80 + i)
	}
	return new(big.Int).SetBytes(b)
}

func TestReproC07MismatchPanics(t *testing.T) {
	defer func() {
		if e := recover(); e != nil {
			t.Fatalf("DecryptMessageWithTempKeys panicked on a corrupted answer: %v", e)
		}
	}()
	garbage := make([]byte, 64)
	for i := range garbage {
		garbage[i] = byte(i * 7)
	}
	DecryptMessageWithTempKeys(garbage, nonce(32), nonce(16))
}

func TestReproC07BadLengthPanics(t *testing.T) {
	defer func() {
		if e := recover(); e != nil {
			t.Fatalf("DecryptMessageWithTempKeys panicked on an answer of bad length: %v", e)
		}
	}()
	DecryptMessageWithTempKeys(make([]byte, 17), nonce(32), nonce(16))
}
