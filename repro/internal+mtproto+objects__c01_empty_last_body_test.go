package objects

import (
	"testing"

	"github.com/xelaj/mtproto/internal/encoding/tl"
	"github.com/xelaj/mtproto/internal/mtproto/messages"
)

// C01: "for every constructor the library knows ... and every value of it" the bytes written are read back.
// A msg_container whose last message has an empty body ends with a zero-length read at the end of the input,
// and bytes.Reader answers a zero-length read at end of input with io.EOF: the decoder refuses what the encoder
// wrote.
func TestReproC01ContainerWithEmptyLastBody(t *testing.T) {
	body, _ := tl.Marshal(&Pong{MsgID: 5, PingID: 6})
	mc := MessageContainer{&messages.Encrypted{Msg: body, MsgID: 9, SeqNo: 3}, &messages.Encrypted{Msg: []byte{}, MsgID: 13, SeqNo: 4}}
	data, err := tl.Marshal(&mc)
	if err != nil {
		t.Fatal(err)
	}
	o, err := tl.DecodeUnknownObject(data)
	if err != nil {
		t.Fatalf("the container the encoder wrote is refused: %v", err)
	}
	got := *o.(*MessageContainer)
	if len(got) != 2 || got[1].MsgID != 13 || len(got[1].Msg) != 0 {
		t.Fatalf("got %+v", got)
	}
}
