package objects

import (
	"testing"

	"github.com/xelaj/mtproto/internal/encoding/tl"
	"github.com/xelaj/mtproto/internal/mtproto/messages"
)

func TestReproContainerByName(t *testing.T) {
	body, _ := tl.Marshal(&Pong{MsgID: 5, PingID: 6})
	mc := MessageContainer{&messages.Encrypted{Msg: body, MsgID: 9, SeqNo: 3}}
	data, err := tl.Marshal(&mc)
	if err != nil {
		t.Fatal(err)
	}
	var out MessageContainer
	if err := tl.Decode(data, &out); err != nil {
		t.Fatalf("decode by naming the type: %v", err)
	}
	if len(out) != 1 || out[0].MsgID != 9 {
		t.Fatalf("got %+v", out)
	}
	o, err := tl.DecodeUnknownObject(data)
	if err != nil {
		t.Fatalf("by id: %v", err)
	}
	t.Logf("by id ok: %T", o)
}
