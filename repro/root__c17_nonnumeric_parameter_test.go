package mtproto

import (
	"fmt"
	"testing"

	"github.com/xelaj/mtproto/internal/mtproto/objects"
)

// C17: every error text becomes a structured error without panicking.
func TestReproC17NonNumericParameter(t *testing.T) {
	for _, text := range []string{"FLOOD_WAIT_abc", "PHONE_MIGRATE_", "FILE_PART__MISSING", "FLOOD_WAIT_99999999999999999999", "FLOOD_WAIT_12", "SOME_%d_UNKNOWN"} {
		err := func() (err error) {
			defer func() {
				if e := recover(); e != nil {
					err = fmt.Errorf("PANIC: %v", e)
				}
			}()
			e := RpcErrorToNative(&objects.RpcError{ErrorCode: 420, ErrorMessage: text}).(*ErrResponseCode)
			if e.Code != 420 {
				return fmt.Errorf("code %d", e.Code)
			}
			_ = e.Error()
			return nil
		}()
		if err != nil {
			t.Errorf("%q: %v", text, err)
		}
	}
}
