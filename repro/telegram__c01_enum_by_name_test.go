package telegram

import (
	"testing"

	"github.com/xelaj/mtproto/internal/encoding/tl"
)

func TestReproC01EnumByName(t *testing.T) {
	b, err := tl.Marshal(BaseThemeNight)
	if err != nil {
		t.Fatal(err)
	}
	var e BaseTheme
	if err := tl.Decode(b, &e); err != nil {
		t.Fatalf("Decode(&enum): %v", err)
	}
	if e != BaseThemeNight {
		t.Fatalf("got %v", e)
	}
	o, err := tl.DecodeUnknownObject(b)
	if err != nil || o != BaseThemeNight {
		t.Fatalf("unknown: %v %v", o, err)
	}
}
