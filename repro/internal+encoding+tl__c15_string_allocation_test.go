package tl_test

import (
	"runtime"
	"testing"

	"github.com/xelaj/mtproto/internal/encoding/tl"
)

// C15: decoding "never allocates memory out of proportion to the input".  The four bytes fe ff ff ff announce a
// string of 2^24-1 bytes; PopMessage allocated the buffer before it looked at how much input is left.
func TestReproC15StringAllocatedBeforeChecked(t *testing.T) {
	var s string
	var before, after runtime.MemStats
	runtime.GC()
	runtime.ReadMemStats(&before)
	err := tl.Decode([]byte{0xfe, 0xff, 0xff, 0xff}, &s)
	runtime.ReadMemStats(&after)
	if err == nil {
		t.Fatal("no error")
	}
	if grew := after.TotalAlloc - before.TotalAlloc; grew > 1<<20 {
		t.Fatalf("decoding 4 bytes allocated %d bytes before failing with: %v", grew, err)
	}
}
