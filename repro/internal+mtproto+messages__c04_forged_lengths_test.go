package messages

import (
	"bytes"
	"crypto/aes"
	"crypto/sha1"
	"encoding/binary"
	"fmt"
	"testing"

	"github.com/xelaj/mtproto/internal/utils"
)

func try(f func() error) (err error) {
	defer func() {
		if e := recover(); e != nil {
			err = fmt.Errorf("PANIC: %v", e)
		}
	}()
	return f()
}

// seal builds a server→client packet the way a key holder would, declaring an arbitrary body length.
func seal(key []byte, declared int32, body []byte) []byte {
	inner := make([]byte, 32)
	binary.LittleEndian.PutUint64(inner[16:], 0x5e0b800100000001) // msg_id with server parity
	binary.LittleEndian.PutUint32(inner[28:], uint32(declared))
	inner = append(inner, body...)
	for len(inner)%16 != 0 {
		inner = append(inner, 0)
	}
	// msg_key over what the receiver will hash: decrypted[0:32+declared] when that is in range, else anything
	end := 32 + int(declared)
	if end < 0 || end > len(inner) {
		end = len(inner)
	}
	h := sha1.Sum(inner[:end])
	msgKey := h[4:20]
	// server→client direction: x = 8; reuse the library's own Decrypt key schedule by encrypting with IGE decrypt's inverse:
	aesKey, aesIV := generate(msgKey, key)
	ct := igeEncrypt(aesKey, aesIV, inner)
	return append(append(append([]byte{}, utils.AuthKeyHash(key)...), msgKey...), ct...)
}

func TestReproC04ForgedLengths(t *testing.T) {
	key := bytes.Repeat([]byte{0x42, 0x17, 0x99, 0x03}, 64)
	// sanity: an honest packet is accepted
	if _, err := DeserializeEncrypted(seal(key, 8, []byte("12345678")), key); err != nil {
		t.Fatalf("honest packet refused: %v", err)
	}
	for _, declared := range []int32{-1 << 31, -33, -1, 40, 1<<31 - 1} {
		err := try(func() error { _, err := DeserializeEncrypted(seal(key, declared, []byte("12345678")), key); return err })
		if err == nil {
			t.Errorf("declared length %d: accepted", declared)
		} else if bytes.HasPrefix([]byte(err.Error()), []byte("PANIC")) {
			t.Errorf("declared length %d: %v", declared, err)
		}
	}
	// right key id, truncated below the 24-byte header
	for _, n := range []int{8, 12, 23} {
		pkt := seal(key, 8, []byte("12345678"))[:n]
		err := try(func() error { _, err := DeserializeEncrypted(pkt, key); return err })
		if err == nil || bytes.HasPrefix([]byte(err.Error()), []byte("PANIC")) {
			t.Errorf("packet truncated to %d bytes: %v", n, err)
		}
	}
}

// independent MTProto 1.0 key schedule for the server→client direction (x = 8) and IGE encryption
func generate(msgKey, authKey []byte) (key, iv []byte) {
	x := 8
	sh := func(b ...[]byte) []byte { h := sha1.New(); for _, p := range b { h.Write(p) }; return h.Sum(nil) }
	a := sh(msgKey, authKey[x:x+32])
	b := sh(authKey[32+x:48+x], msgKey, authKey[48+x:64+x])
	c := sh(authKey[64+x:96+x], msgKey)
	d := sh(msgKey, authKey[96+x:128+x])
	key = append(append(append([]byte{}, a[0:8]...), b[8:20]...), c[4:16]...)
	iv = append(append(append(append([]byte{}, a[8:20]...), b[0:8]...), c[16:20]...), d[0:8]...)
	return
}

func igeEncrypt(key, iv, in []byte) []byte {
	c, _ := aes.NewCipher(key)
	out := make([]byte, len(in))
	cprev, pprev := iv[:16], iv[16:]
	for i := 0; i < len(in); i += 16 {
		x := make([]byte, 16)
		for j := range x {
			x[j] = in[i+j] ^ cprev[j]
		}
		c.Encrypt(x, x)
		for j := range x {
			x[j] ^= pprev[j]
		}
		copy(out[i:], x)
		cprev, pprev = out[i:i+16], in[i:i+16]
	}
	return out
}
